// Package cexpr parses the expression language used in contracts.
package cexpr

import (
	"fmt"
	"strconv"
	"strings"
)

// Node is an expression AST node.
type Node struct {
	Kind string // "int","char","str","bool","ident","unary","binary","call","index","slice","sel","forall","exists","old","ite"
	Op   string
	Name string
	Val  string
	Args []*Node // operands; for call: Args[0] is callee (ident/sel), rest are args; slice: x, lo, hi (nil allowed)
	Vars []string
	Pos  int
}

func (n *Node) String() string {
	if n == nil {
		return "<nil>"
	}
	switch n.Kind {
	case "int", "bool":
		return n.Val
	case "char":
		return "'" + n.Val + "'"
	case "str":
		return strconv.Quote(n.Val)
	case "ident":
		return n.Name
	case "unary":
		return n.Op + n.Args[0].String()
	case "binary":
		return "(" + n.Args[0].String() + " " + n.Op + " " + n.Args[1].String() + ")"
	case "call":
		as := make([]string, 0, len(n.Args)-1)
		for _, a := range n.Args[1:] {
			as = append(as, a.String())
		}
		return n.Args[0].String() + "(" + strings.Join(as, ", ") + ")"
	case "index":
		return n.Args[0].String() + "[" + n.Args[1].String() + "]"
	case "slice":
		lo, hi := "", ""
		if n.Args[1] != nil {
			lo = n.Args[1].String()
		}
		if n.Args[2] != nil {
			hi = n.Args[2].String()
		}
		return n.Args[0].String() + "[" + lo + ":" + hi + "]"
	case "sel":
		return n.Args[0].String() + "." + n.Name
	case "forall", "exists":
		return "(" + n.Kind + " " + strings.Join(n.Vars, ",") + ": " + n.Args[0].String() + ")"
	case "old":
		return "old(" + n.Args[0].String() + ")"
	case "ite":
		return "(if " + n.Args[0].String() + " then " + n.Args[1].String() + " else " + n.Args[2].String() + ")"
	}
	return "?" + n.Kind
}

type tok struct {
	k   string // "id","int","char","str","op","eof"
	s   string
	pos int
}

func lex(src string) ([]tok, error) {
	var ts []tok
	i := 0
	for i < len(src) {
		c := src[i]
		switch {
		case c == ' ' || c == '\t' || c == '\n':
			i++
		case c >= '0' && c <= '9':
			j := i
			for j < len(src) && (src[j] >= '0' && src[j] <= '9' || src[j] == 'x' || src[j] == '_' || src[j] >= 'a' && src[j] <= 'f' || src[j] >= 'A' && src[j] <= 'F') {
				j++
			}
			ts = append(ts, tok{"int", strings.ReplaceAll(src[i:j], "_", ""), i})
			i = j
		case c == '_' || c == '$' || c >= 'a' && c <= 'z' || c >= 'A' && c <= 'Z':
			j := i + 1
			for j < len(src) && (src[j] == '_' || src[j] == '$' || src[j] >= 'a' && src[j] <= 'z' || src[j] >= 'A' && src[j] <= 'Z' || src[j] >= '0' && src[j] <= '9') {
				j++
			}
			ts = append(ts, tok{"id", src[i:j], i})
			i = j
		case c == '\'':
			j := i + 1
			for j < len(src) && src[j] != '\'' {
				if src[j] == '\\' {
					j++
				}
				j++
			}
			if j >= len(src) {
				return nil, fmt.Errorf("unterminated char literal at %d", i)
			}
			v, _, _, err := strconv.UnquoteChar(src[i+1:j], '\'')
			if err != nil {
				return nil, fmt.Errorf("bad char literal %s", src[i:j+1])
			}
			ts = append(ts, tok{"char", strconv.Itoa(int(v)), i})
			i = j + 1
		case c == '"':
			j := i + 1
			for j < len(src) && src[j] != '"' {
				if src[j] == '\\' {
					j++
				}
				j++
			}
			if j >= len(src) {
				return nil, fmt.Errorf("unterminated string literal at %d", i)
			}
			v, err := strconv.Unquote(src[i : j+1])
			if err != nil {
				return nil, fmt.Errorf("bad string literal %s", src[i:j+1])
			}
			ts = append(ts, tok{"str", v, i})
			i = j + 1
		default:
			ops := []string{"<==>", "==>", "===", "&&", "||", "==", "!=", "<=", ">=", "<<", ">>", "&^"}
			matched := false
			for _, op := range ops {
				if strings.HasPrefix(src[i:], op) {
					ts = append(ts, tok{"op", op, i})
					i += len(op)
					matched = true
					break
				}
			}
			if !matched {
				if strings.ContainsRune("+-*/%<>!()[]{}.,:&|^@", rune(c)) {
					ts = append(ts, tok{"op", string(c), i})
					i++
				} else {
					return nil, fmt.Errorf("unexpected character %q at %d", c, i)
				}
			}
		}
	}
	ts = append(ts, tok{"eof", "", len(src)})
	return ts, nil
}

type parser struct {
	ts  []tok
	p   int
	src string
}

// Parse parses one expression.
func Parse(src string) (n *Node, err error) {
	ts, err := lex(src)
	if err != nil {
		return nil, err
	}
	p := &parser{ts: ts, src: src}
	defer func() {
		if r := recover(); r != nil {
			if e, ok := r.(perr); ok {
				err = fmt.Errorf("%s in %q", string(e), src)
				return
			}
			panic(r)
		}
	}()
	n = p.expr()
	if p.peek().k != "eof" {
		p.fail("unexpected %q", p.peek().s)
	}
	return n, nil
}

// ParseList parses a comma separated list of expressions.
func ParseList(src string) (ns []*Node, err error) {
	ts, err := lex(src)
	if err != nil {
		return nil, err
	}
	p := &parser{ts: ts, src: src}
	defer func() {
		if r := recover(); r != nil {
			if e, ok := r.(perr); ok {
				err = fmt.Errorf("%s in %q", string(e), src)
				return
			}
			panic(r)
		}
	}()
	if p.peek().k == "eof" {
		return nil, nil
	}
	for {
		ns = append(ns, p.expr())
		if p.isOp(",") {
			p.next()
			continue
		}
		break
	}
	if p.peek().k != "eof" {
		p.fail("unexpected %q", p.peek().s)
	}
	return ns, nil
}

type perr string

func (p *parser) fail(f string, a ...any) { panic(perr(fmt.Sprintf(f, a...))) }
func (p *parser) peek() tok              { return p.ts[p.p] }
func (p *parser) next() tok              { t := p.ts[p.p]; p.p++; return t }
func (p *parser) isOp(s string) bool     { t := p.peek(); return t.k == "op" && t.s == s }
func (p *parser) isID(s string) bool     { t := p.peek(); return t.k == "id" && t.s == s }
func (p *parser) expectOp(s string) {
	if !p.isOp(s) {
		p.fail("expected %q, found %q", s, p.peek().s)
	}
	p.next()
}

func (p *parser) expr() *Node { return p.iff() }

func (p *parser) iff() *Node {
	l := p.implies()
	for p.isOp("<==>") {
		p.next()
		r := p.implies()
		l = &Node{Kind: "binary", Op: "<==>", Args: []*Node{l, r}}
	}
	return l
}

func (p *parser) implies() *Node {
	l := p.or()
	if p.isOp("==>") {
		p.next()
		r := p.implies()
		return &Node{Kind: "binary", Op: "==>", Args: []*Node{l, r}}
	}
	return l
}

func (p *parser) or() *Node {
	l := p.and()
	for p.isOp("||") {
		p.next()
		r := p.and()
		l = &Node{Kind: "binary", Op: "||", Args: []*Node{l, r}}
	}
	return l
}

func (p *parser) and() *Node {
	l := p.cmp()
	for p.isOp("&&") {
		p.next()
		r := p.cmp()
		l = &Node{Kind: "binary", Op: "&&", Args: []*Node{l, r}}
	}
	return l
}

func (p *parser) cmp() *Node {
	l := p.addx()
	// chained comparisons a <= b < c  => (a<=b) && (b<c)
	var res *Node
	for {
		t := p.peek()
		if t.k == "op" && (t.s == "==" || t.s == "!=" || t.s == "<" || t.s == "<=" || t.s == ">" || t.s == ">=" || t.s == "===") {
			p.next()
			r := p.addx()
			c := &Node{Kind: "binary", Op: t.s, Args: []*Node{l, r}}
			if res == nil {
				res = c
			} else {
				res = &Node{Kind: "binary", Op: "&&", Args: []*Node{res, c}}
			}
			l = r
			continue
		}
		break
	}
	if res != nil {
		return res
	}
	return l
}

func (p *parser) addx() *Node {
	l := p.mulx()
	for {
		t := p.peek()
		if t.k == "op" && (t.s == "+" || t.s == "-" || t.s == "|" || t.s == "^") {
			p.next()
			r := p.mulx()
			l = &Node{Kind: "binary", Op: t.s, Args: []*Node{l, r}}
			continue
		}
		break
	}
	return l
}

func (p *parser) mulx() *Node {
	l := p.unary()
	for {
		t := p.peek()
		if t.k == "op" && (t.s == "*" || t.s == "/" || t.s == "%" || t.s == "<<" || t.s == ">>" || t.s == "&") {
			p.next()
			r := p.unary()
			l = &Node{Kind: "binary", Op: t.s, Args: []*Node{l, r}}
			continue
		}
		break
	}
	return l
}

func (p *parser) unary() *Node {
	t := p.peek()
	if t.k == "op" && (t.s == "!" || t.s == "-") {
		p.next()
		x := p.unary()
		return &Node{Kind: "unary", Op: t.s, Args: []*Node{x}}
	}
	return p.postfix()
}

func (p *parser) postfix() *Node {
	x := p.primary()
	for {
		switch {
		case p.isOp("."):
			p.next()
			t := p.next()
			if t.k != "id" && !(t.k == "op" && t.s == "*") {
				p.fail("expected field name after '.'")
			}
			x = &Node{Kind: "sel", Name: t.s, Args: []*Node{x}}
		case p.isOp("("):
			p.next()
			args := []*Node{x}
			if !p.isOp(")") {
				for {
					args = append(args, p.expr())
					if p.isOp(",") {
						p.next()
						continue
					}
					break
				}
			}
			p.expectOp(")")
			if x.Kind == "ident" && x.Name == "old" && len(args) == 2 {
				x = &Node{Kind: "old", Args: []*Node{args[1]}}
			} else {
				x = &Node{Kind: "call", Args: args}
			}
		case p.isOp("["):
			p.next()
			var lo, hi *Node
			if !p.isOp(":") {
				lo = p.expr()
			}
			if p.isOp(":") {
				p.next()
				if !p.isOp("]") {
					hi = p.expr()
				}
				p.expectOp("]")
				x = &Node{Kind: "slice", Args: []*Node{x, lo, hi}}
			} else {
				p.expectOp("]")
				x = &Node{Kind: "index", Args: []*Node{x, lo}}
			}
		default:
			return x
		}
	}
}

func (p *parser) primary() *Node {
	t := p.next()
	switch t.k {
	case "int":
		return &Node{Kind: "int", Val: t.s}
	case "char":
		return &Node{Kind: "int", Val: t.s}
	case "str":
		return &Node{Kind: "str", Val: t.s}
	case "id":
		switch t.s {
		case "true", "false":
			return &Node{Kind: "bool", Val: t.s}
		case "forall", "exists":
			if p.peek().k != "id" {
				// a program identifier that happens to be called forall / exists
				return &Node{Kind: "ident", Name: t.s}
			}
			var vars []string
			for {
				v := p.next()
				if v.k != "id" {
					p.fail("expected bound variable")
				}
				vars = append(vars, v.s)
				if p.isOp(",") {
					p.next()
					continue
				}
				break
			}
			// optional trigger: forall j by a[j], b[j]: body
			var pats []*Node
			if p.isID("by") {
				p.next()
				for {
					pats = append(pats, p.expr())
					if p.isOp(",") {
						p.next()
						continue
					}
					break
				}
			}
			p.expectOp(":")
			body := p.expr()
			return &Node{Kind: t.s, Vars: vars, Args: append([]*Node{body}, pats...)}
		case "if":
			c := p.expr()
			if !p.isID("then") {
				p.fail("expected 'then'")
			}
			p.next()
			a := p.expr()
			if !p.isID("else") {
				p.fail("expected 'else'")
			}
			p.next()
			b := p.expr()
			return &Node{Kind: "ite", Args: []*Node{c, a, b}}
		}
		return &Node{Kind: "ident", Name: t.s}
	case "op":
		if t.s == "(" {
			x := p.expr()
			p.expectOp(")")
			return x
		}
	}
	p.fail("unexpected %q", t.s)
	return nil
}
