// Package contract parses the //@ contract files.
package contract

import (
	"fmt"
	"os"
	"regexp"
	"strconv"
	"strings"

	"verif/internal/cexpr"
)

// Clause is one tagged boolean expression.
type Clause struct {
	Props []string // property ids served
	Label string
	Expr  *cexpr.Node
	Src   string
	Line  int
}

// Let binds a name to an expression evaluated at a program point.
type Let struct {
	Name string
	Expr *cexpr.Node
}

// Loop is the contract of one loop.
type Loop struct {
	Ordinal    int
	Invariants []Clause
	Variant    *cexpr.Node
	Lets       []Let // evaluated at loop entry (before havoc): names for entry values
	Uses       []*cexpr.Node
	Split      *cexpr.Node
	SplitVals  []*cexpr.Node
	Entries    []Clause      // checked when the loop is entered (not assumed afterwards)
	Havoc      []*cexpr.Node // extra havoc targets
	Keep       []*cexpr.Node
	AutoDone   bool
}

// Call is an annotation attached to a call site "at call name#k".
type Call struct {
	Callee  string
	Ordinal int
	Ghosts  []Let    // ghost instantiation for the callee's ghost variables
	Sets    []Let    // updates of the caller's mutable ghost variables after the call ($r0.. are the call's results)
	Asserts []Clause // asserted before the call
	Assumes []Clause
	Uses    []*cexpr.Node // lemma / axiom instances assumed before the call
}

// Func is the contract of one function.
type Func struct {
	Key      string
	Pkg      string
	Unit     string
	Ghosts   []string
	GhostVars []Let // mutable ghost variables (int) with their initial values
	Lets     []Let
	Requires []Clause
	Ensures  []Clause
	Modifies []*cexpr.Node
	Readonly []string
	Loops    map[int]*Loop
	Calls    []*Call
	Raises   bool
	Inline   bool
	Exact    bool
	Trusted  bool // contract is assumed (axiom), body not verified
	NoBody   bool
	Pure     bool
	Opts     map[string]string
	File     string
	Line     int
	Asserts  map[string][]Clause // "assert at <label>"
	Uses     []*cexpr.Node       // lemma / axiom instances assumed at every exit before the ensures
	Regions  []*Region
}

// Region is a statement contract on one case clause of a large function.
type Region struct {
	Name    string
	Path    []string // case-clause labels from the outside in; "label#k" selects the k-th match (0-based)
	Parent  string
	Lets    []Let
	Assumes []Clause // assumed at the region entry (checked when a parent region reaches this entry)
	Asserts []Clause // checked at every exit of the region
	Uses    []*cexpr.Node
	Line    int
	Loops   map[int]*Loop // loop contracts, numbered in source order inside the region
}

// Sweep asks for thin safety-only contracts on every function matching a pattern.
type Sweep struct {
	Pattern  string
	Unit     string
	Raises   bool
	Props    []string
	Requires []Clause // template: required by and used as loop invariant of every swept function
	Ensures  []Clause
}

// Pred is a named predicate or macro.
type Pred struct {
	Pkg    string
	Name   string
	Params []string
	Body   *cexpr.Node
	Src    string
}

// Lemma is a closed formula proved on its own (optionally by induction).
type Lemma struct {
	Name     string
	Props    []string
	Params   []string // "name type"
	Vars     []string
	Expr     *cexpr.Node
	Induct   string // variable for induction, "" if none
	Src      string
	Uses     []*cexpr.Node
	Requires []Clause
}

// File is a parsed contract file.
type File struct {
	Sweeps []Sweep
	Path   string
	Pkg    string
	Funcs  []*Func
	Preds  map[string]*Pred
	Lemmas []*Lemma
}

var tagRe = regexp.MustCompile(`^\[([^\]]*)\]\s*`)
var propRe = regexp.MustCompile(`^C[0-9]{2,3}$`)

var keywords = map[string]bool{
	"unit": true, "func": true, "pred": true, "requires": true, "ensures": true, "modifies": true,
	"readonly": true, "loop": true, "invariant": true, "variant": true, "let": true, "use": true,
	"split": true, "ghost": true, "raises": true, "inline": true, "exact": true, "trusted": true,
	"ghostvar": true, "set": true, "at": true, "assert": true, "assume": true, "lemma": true, "opt": true, "havoc": true, "with": true,
	"pure": true, "keep": true, "end": true, "sweep": true, "region": true, "parent": true, "entry": true,
}

// ParseFile reads a contract file. pkg is the package path the file belongs to.
func ParseFile(path, pkg string) (*File, error) {
	data, err := os.ReadFile(path)
	if err != nil {
		return nil, err
	}
	return Parse(string(data), path, pkg)
}

type rawClause struct {
	kw   string
	text string
	line int
}

// Parse parses contract text.
func Parse(text, path, pkg string) (*File, error) {
	f := &File{Path: path, Pkg: pkg, Preds: map[string]*Pred{}}
	var raws []rawClause
	for i, line := range strings.Split(text, "\n") {
		t := strings.TrimSpace(line)
		if !strings.HasPrefix(t, "//@") {
			continue
		}
		t = strings.TrimSpace(t[3:])
		if t == "" || strings.HasPrefix(t, "#") {
			continue
		}
		// strip trailing comment " // ..."
		if k := strings.Index(t, " // "); k >= 0 {
			t = strings.TrimSpace(t[:k])
		}
		kw := t
		rest := ""
		if k := strings.IndexAny(t, " \t"); k >= 0 {
			kw, rest = t[:k], strings.TrimSpace(t[k+1:])
		}
		if keywords[kw] {
			raws = append(raws, rawClause{kw, rest, i + 1})
		} else {
			if len(raws) == 0 {
				return nil, fmt.Errorf("%s:%d: continuation without clause", path, i+1)
			}
			raws[len(raws)-1].text += " " + t
		}
	}
	unit := ""
	var cur *Func
	var curLoop *Loop
	var curCall *Call
	var curLemma *Lemma
	var curSweep *Sweep
	var curRegion *Region
	inRegionLoop := false
	var curAssert string
	_ = curAssert
	perr := func(rc rawClause, e error) error { return fmt.Errorf("%s:%d: %v", path, rc.line, e) }
	clause := func(rc rawClause) (Clause, error) {
		c := Clause{Line: rc.line}
		txt := rc.text
		if m := tagRe.FindStringSubmatch(txt); m != nil {
			txt = txt[len(m[0]):]
			var lab []string
			for _, w := range strings.Fields(m[1]) {
				if propRe.MatchString(w) {
					c.Props = append(c.Props, w)
				} else {
					lab = append(lab, w)
				}
			}
			c.Label = strings.Join(lab, " ")
		}
		c.Src = txt
		n, err := cexpr.Parse(txt)
		if err != nil {
			return c, perr(rc, err)
		}
		c.Expr = n
		return c, nil
	}
	parseLet := func(rc rawClause) (Let, error) {
		k := strings.Index(rc.text, "=")
		if k < 0 {
			return Let{}, perr(rc, fmt.Errorf("let needs '='"))
		}
		n, err := cexpr.Parse(rc.text[k+1:])
		if err != nil {
			return Let{}, perr(rc, err)
		}
		return Let{Name: strings.TrimSpace(rc.text[:k]), Expr: n}, nil
	}
	for _, rc := range raws {
		switch rc.kw {
		case "unit":
			unit = rc.text
		case "func":
			curSweep = nil
			curRegion = nil
			cur = &Func{Key: rc.text, Pkg: pkg, Unit: unit, Loops: map[int]*Loop{}, Opts: map[string]string{}, File: path, Line: rc.line, Asserts: map[string][]Clause{}}
			f.Funcs = append(f.Funcs, cur)
			curLoop, curCall, curLemma = nil, nil, nil
		case "end":
			cur, curLoop, curCall, curLemma = nil, nil, nil, nil
		case "sweep":
			// sweep [raises] <regexp over function keys>
			sw := Sweep{Unit: unit}
			txt := rc.text
			if strings.HasPrefix(txt, "raises ") {
				sw.Raises = true
				txt = strings.TrimSpace(strings.TrimPrefix(txt, "raises "))
			}
			if m := tagRe.FindStringSubmatch(txt); m != nil {
				txt = txt[len(m[0]):]
				sw.Props = strings.Fields(m[1])
			}
			sw.Pattern = txt
			f.Sweeps = append(f.Sweeps, sw)
			curSweep = &f.Sweeps[len(f.Sweeps)-1]
			cur, curLoop, curCall, curLemma = nil, nil, nil, nil
		case "pred":
			k := strings.Index(rc.text, "=")
			if k < 0 {
				return nil, perr(rc, fmt.Errorf("pred needs '='"))
			}
			head := strings.TrimSpace(rc.text[:k])
			p := &Pred{Src: rc.text, Pkg: pkg}
			if o := strings.Index(head, "("); o >= 0 {
				p.Name = strings.TrimSpace(head[:o])
				ps := strings.TrimSuffix(strings.TrimSpace(head[o+1:]), ")")
				for _, x := range strings.Split(ps, ",") {
					x = strings.TrimSpace(x)
					if x != "" {
						p.Params = append(p.Params, strings.Fields(x)[0])
					}
				}
			} else {
				p.Name = head
			}
			n, err := cexpr.Parse(rc.text[k+1:])
			if err != nil {
				return nil, perr(rc, err)
			}
			p.Body = n
			f.Preds[p.Name] = p
		case "lemma":
			// lemma Name [Cxx] forall a, b: expr   |  lemma Name by induction on n ...
			txt := rc.text
			l := &Lemma{Src: txt}
			fs := strings.Fields(txt)
			if len(fs) == 0 {
				return nil, perr(rc, fmt.Errorf("lemma needs a name"))
			}
			if o := strings.Index(txt, "("); o >= 0 && o < len(fs[0])+1 {
				c := strings.Index(txt, ")")
				l.Name = strings.TrimSpace(txt[:o])
				for _, x := range strings.Split(txt[o+1:c], ",") {
					x = strings.TrimSpace(x)
					if x != "" {
						l.Params = append(l.Params, x)
					}
				}
				txt = strings.TrimSpace(txt[c+1:])
			} else {
				l.Name = fs[0]
				txt = strings.TrimSpace(txt[len(fs[0]):])
			}
			if m := tagRe.FindStringSubmatch(txt); m != nil {
				txt = txt[len(m[0]):]
				for _, w := range strings.Fields(m[1]) {
					if propRe.MatchString(w) {
						l.Props = append(l.Props, w)
					}
				}
			}
			if strings.HasPrefix(txt, "by induction on ") {
				r := strings.TrimPrefix(txt, "by induction on ")
				fs := strings.Fields(r)
				l.Induct = strings.TrimSuffix(fs[0], ":")
				txt = strings.TrimSpace(r[len(fs[0]):])
			}
			txt = strings.TrimPrefix(strings.TrimSpace(txt), ":")
			if false {
			}
			n, err := cexpr.Parse(txt)
			if err != nil {
				return nil, perr(rc, err)
			}
			l.Expr = n
			f.Lemmas = append(f.Lemmas, l)
			curLemma = l
			cur, curLoop, curCall = nil, nil, nil
		default:
			if curLemma != nil {
				switch rc.kw {
				case "use":
					ns, err := cexpr.ParseList(rc.text)
					if err != nil {
						return nil, perr(rc, err)
					}
					curLemma.Uses = append(curLemma.Uses, ns...)
					continue
				case "requires":
					c, err := clause(rc)
					if err != nil {
						return nil, err
					}
					curLemma.Requires = append(curLemma.Requires, c)
					continue
				}
			}
			if curSweep != nil && cur == nil {
				c, err := clause(rc)
				if err != nil {
					return nil, err
				}
				switch rc.kw {
				case "requires":
					curSweep.Requires = append(curSweep.Requires, c)
				case "ensures":
					curSweep.Ensures = append(curSweep.Ensures, c)
				default:
					return nil, perr(rc, fmt.Errorf("clause %q not allowed in a sweep template", rc.kw))
				}
				continue
			}
			if cur == nil {
				return nil, perr(rc, fmt.Errorf("clause %q outside func", rc.kw))
			}
			if rc.kw == "region" {
				k := strings.Index(rc.text, "=")
				if k < 0 {
					return nil, perr(rc, fmt.Errorf("region needs '='"))
				}
				inRegionLoop = false
				curRegion = &Region{Name: strings.TrimSpace(rc.text[:k]), Line: rc.line}
				for _, x := range strings.Split(rc.text[k+1:], " > ") {
					curRegion.Path = append(curRegion.Path, strings.TrimSpace(x))
				}
				cur.Regions = append(cur.Regions, curRegion)
				curLoop, curCall = nil, nil
				continue
			}
			if rc.kw == "loop" && curRegion != nil {
				n, err := strconv.Atoi(strings.Fields(rc.text)[0])
				if err != nil {
					return nil, perr(rc, err)
				}
				curLoop = &Loop{Ordinal: n}
				if curRegion.Loops == nil {
					curRegion.Loops = map[int]*Loop{}
				}
				curRegion.Loops[n] = curLoop
				curCall = nil
				inRegionLoop = true
				continue
			}
			if curRegion != nil && inRegionLoop {
				switch rc.kw {
				case "invariant", "variant", "let", "use", "havoc", "keep", "entry", "split":
					// handled by the generic loop clauses below
				default:
					inRegionLoop = false
				}
			}
			if curRegion != nil && !inRegionLoop {
				switch rc.kw {
				case "parent":
					curRegion.Parent = rc.text
					continue
				case "let":
					l, err := parseLet(rc)
					if err != nil {
						return nil, err
					}
					curRegion.Lets = append(curRegion.Lets, l)
					continue
				case "assume", "assert":
					c, err := clause(rc)
					if err != nil {
						return nil, err
					}
					if rc.kw == "assume" {
						curRegion.Assumes = append(curRegion.Assumes, c)
					} else {
						curRegion.Asserts = append(curRegion.Asserts, c)
					}
					continue
				case "use":
					ns, err := cexpr.ParseList(rc.text)
					if err != nil {
						return nil, perr(rc, err)
					}
					curRegion.Uses = append(curRegion.Uses, ns...)
					continue
				}
			}
			switch rc.kw {
			case "ghost":
				for _, x := range strings.Split(rc.text, ",") {
					x = strings.TrimSpace(x)
					if x != "" {
						cur.Ghosts = append(cur.Ghosts, x)
					}
				}
			case "requires":
				c, err := clause(rc)
				if err != nil {
					return nil, err
				}
				cur.Requires = append(cur.Requires, c)
			case "ensures":
				c, err := clause(rc)
				if err != nil {
					return nil, err
				}
				cur.Ensures = append(cur.Ensures, c)
			case "modifies":
				ns, err := cexpr.ParseList(rc.text)
				if err != nil {
					return nil, perr(rc, err)
				}
				cur.Modifies = append(cur.Modifies, ns...)
			case "readonly":
				for _, x := range strings.Split(rc.text, ",") {
					cur.Readonly = append(cur.Readonly, strings.TrimSpace(x))
				}
			case "raises":
				cur.Raises = true
			case "inline":
				cur.Inline = true
			case "exact":
				cur.Exact = true
			case "trusted":
				cur.Trusted = true
			case "pure":
				cur.Pure = true
			case "opt":
				kv := strings.SplitN(rc.text, "=", 2)
				if len(kv) == 2 {
					cur.Opts[strings.TrimSpace(kv[0])] = strings.TrimSpace(kv[1])
				} else {
					cur.Opts[strings.TrimSpace(rc.text)] = "true"
				}
			case "loop":
				n, err := strconv.Atoi(strings.Fields(rc.text)[0])
				if err != nil {
					return nil, perr(rc, err)
				}
				curLoop = &Loop{Ordinal: n}
				cur.Loops[n] = curLoop
				curCall = nil
			case "at":
				// at call name#k
				fs := strings.Fields(rc.text)
				if len(fs) < 2 || fs[0] != "call" {
					return nil, perr(rc, fmt.Errorf("expected 'at call name#k'"))
				}
				name := fs[1]
				ord := 0
				if k := strings.Index(name, "#"); k >= 0 {
					ord, _ = strconv.Atoi(name[k+1:])
					name = name[:k]
				}
				curCall = &Call{Callee: name, Ordinal: ord}
				cur.Calls = append(cur.Calls, curCall)
				curLoop = nil
			case "ghostvar":
				l, err := parseLet(rc)
				if err != nil {
					return nil, err
				}
				cur.GhostVars = append(cur.GhostVars, l)
			case "set":
				if curCall == nil {
					return nil, perr(rc, fmt.Errorf("'set' outside 'at call'"))
				}
				l, err := parseLet(rc)
				if err != nil {
					return nil, err
				}
				curCall.Sets = append(curCall.Sets, l)
			case "with":
				if curCall == nil {
					return nil, perr(rc, fmt.Errorf("'with' outside 'at call'"))
				}
				l, err := parseLet(rc)
				if err != nil {
					return nil, err
				}
				curCall.Ghosts = append(curCall.Ghosts, l)
			case "let":
				l, err := parseLet(rc)
				if err != nil {
					return nil, err
				}
				if curLoop != nil {
					curLoop.Lets = append(curLoop.Lets, l)
				} else {
					cur.Lets = append(cur.Lets, l)
				}
			case "entry":
				if curLoop == nil {
					return nil, perr(rc, fmt.Errorf("entry outside loop"))
				}
				c, err := clause(rc)
				if err != nil {
					return nil, err
				}
				curLoop.Entries = append(curLoop.Entries, c)
			case "invariant":
				if curLoop == nil {
					return nil, perr(rc, fmt.Errorf("invariant outside loop"))
				}
				c, err := clause(rc)
				if err != nil {
					return nil, err
				}
				curLoop.Invariants = append(curLoop.Invariants, c)
			case "variant":
				if curLoop == nil {
					return nil, perr(rc, fmt.Errorf("variant outside loop"))
				}
				n, err := cexpr.Parse(rc.text)
				if err != nil {
					return nil, perr(rc, err)
				}
				curLoop.Variant = n
			case "use":
				ns, err := cexpr.ParseList(rc.text)
				if err != nil {
					return nil, perr(rc, err)
				}
				if curCall != nil {
					curCall.Uses = append(curCall.Uses, ns...)
				} else if curLoop != nil {
					curLoop.Uses = append(curLoop.Uses, ns...)
				} else {
					cur.Uses = append(cur.Uses, ns...)
				}
			case "split":
				if curLoop == nil {
					return nil, perr(rc, fmt.Errorf("split outside loop"))
				}
				// split expr in v1, v2, ...
				k := strings.Index(rc.text, " in ")
				if k < 0 {
					return nil, perr(rc, fmt.Errorf("split needs 'in'"))
				}
				n, err := cexpr.Parse(rc.text[:k])
				if err != nil {
					return nil, perr(rc, err)
				}
				vs, err := cexpr.ParseList(rc.text[k+4:])
				if err != nil {
					return nil, perr(rc, err)
				}
				curLoop.Split = n
				curLoop.SplitVals = vs
			case "havoc":
				ns, err := cexpr.ParseList(rc.text)
				if err != nil {
					return nil, perr(rc, err)
				}
				if curLoop != nil {
					curLoop.Havoc = append(curLoop.Havoc, ns...)
				}
			case "keep":
				ns, err := cexpr.ParseList(rc.text)
				if err != nil {
					return nil, perr(rc, err)
				}
				if curLoop != nil {
					curLoop.Keep = append(curLoop.Keep, ns...)
				}
			case "assert", "assume":
				c, err := clause(rc)
				if err != nil {
					return nil, err
				}
				if curCall != nil {
					if rc.kw == "assert" {
						curCall.Asserts = append(curCall.Asserts, c)
					} else {
						curCall.Assumes = append(curCall.Assumes, c)
					}
				} else {
					return nil, perr(rc, fmt.Errorf("%s outside 'at call'", rc.kw))
				}
			default:
				return nil, perr(rc, fmt.Errorf("unknown clause %q", rc.kw))
			}
		}
	}
	return f, nil
}
