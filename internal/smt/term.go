// Package smt is a small hash-consed term language with a simplifier and an
// SMT-LIB2 printer. It is the target of the VC generator.
package smt

import (
	"crypto/sha256"
	"fmt"
	"math/big"
	"sort"
	"strconv"
	"strings"
)

// Sort is an SMT sort, kept as its SMT-LIB spelling.
type Sort string

const (
	Int   Sort = "Int"
	Bool  Sort = "Bool"
	Any   Sort = "Any"
	F64   Sort = "F64"
	IArr  Sort = "(Array Int Int)"
	IIArr Sort = "(Array Int (Array Int Int))"
)

// ArrayOf returns the sort of arrays from Int to s.
func ArrayOf(s Sort) Sort { return Sort("(Array Int " + string(s) + ")") }

// ElemOf returns the element sort of an Int-indexed array sort.
func ElemOf(s Sort) Sort {
	str := string(s)
	if !strings.HasPrefix(str, "(Array Int ") {
		panic("not an array sort: " + str)
	}
	return Sort(str[len("(Array Int ") : len(str)-1])
}

// Term is an immutable hash-consed node.
type Term struct {
	Op   string // "const", "var", "app:<name>", operators, "forall", "exists"
	Args []*Term
	S    Sort
	Name string   // var / app / bound name
	Val  *big.Int // integer constant
	B    bool     // bool constant
	id   int
	qd   int // quantifier nesting depth
	h    [32]byte // structural hash (name, sort, value and the hashes of the children): stable across runs
	// Bound variables for quantifiers.
	Bound []*Term
	// Pattern terms for quantifiers (optional).
	Pats []*Term
}

var (
	table  = map[string]*Term{}
	nextID = 1
	// FunDecls records uninterpreted function signatures: name -> (arg sorts, result).
	FunDecls = map[string]FunDecl{}
	// FunDefs records defined functions (emitted as define-fun): name -> def.
	FunDefs = map[string]*FunDef{}
)

// FunDecl is an uninterpreted function signature.
type FunDecl struct {
	Args []Sort
	Res  Sort
}

// FunDef is a defined (non-recursive) function.
type FunDef struct {
	Name   string
	Params []*Term // vars
	Res    Sort
	Body   *Term
	Raw    string // if non-empty, printed verbatim as the body
	// For table functions: the set of values in the range (for pruning).
	Range map[int64]bool
	Table []int64 // value per index (for concrete evaluation); nil if not a table
	rawHash [32]byte
	hashed  bool
}

// Reset clears global tables (used between independent runs in tests).
func Reset() {
	table = map[string]*Term{}
	nextID = 1
	FunDecls = map[string]FunDecl{}
	FunDefs = map[string]*FunDef{}
}

func key(t *Term) string {
	b := make([]byte, 0, 64)
	b = append(b, t.Op...)
	b = append(b, '|')
	b = append(b, t.S...)
	b = append(b, '|')
	b = append(b, t.Name...)
	if t.Val != nil {
		b = append(b, '#')
		b = t.Val.Append(b, 10)
	}
	if t.Op == "bool" {
		if t.B {
			b = append(b, "#t"...)
		} else {
			b = append(b, "#f"...)
		}
	}
	for _, a := range t.Args {
		b = append(b, ',')
		b = strconv.AppendInt(b, int64(a.id), 10)
	}
	for _, a := range t.Bound {
		b = append(b, ';')
		b = strconv.AppendInt(b, int64(a.id), 10)
	}
	for _, a := range t.Pats {
		b = append(b, '!')
		b = strconv.AppendInt(b, int64(a.id), 10)
	}
	return string(b)
}

func intern(t *Term) *Term {
	k := key(t)
	if x, ok := table[k]; ok {
		return x
	}
	t.id = nextID
	nextID++
	t.h = structHash(t)
	for _, a := range t.Args {
		if a.qd > t.qd {
			t.qd = a.qd
		}
	}
	if t.Op == "forall" || t.Op == "exists" {
		t.qd++
	}
	table[k] = t
	return t
}

// structHash is the hash of the term's structure; children are interned before their parents, so their hashes exist.
func structHash(t *Term) [32]byte {
	b := make([]byte, 0, 96+32*(len(t.Args)+len(t.Bound)+len(t.Pats)))
	b = append(b, t.Op...)
	b = append(b, 0)
	b = append(b, t.S...)
	b = append(b, 0)
	b = append(b, t.Name...)
	b = append(b, 0)
	if t.Val != nil {
		b = t.Val.Append(b, 16)
	}
	if t.B {
		b = append(b, 1)
	} else {
		b = append(b, 2)
	}
	if t.Op == "app" {
		// an application of a defined function (a constant table) depends on the definition
		if d, ok := FunDefs[t.Name]; ok {
			if !d.hashed {
				d.rawHash = sha256.Sum256([]byte(d.Raw))
				d.hashed = true
			}
			b = append(b, d.rawHash[:]...)
		}
	}
	for _, a := range t.Args {
		b = append(b, a.h[:]...)
	}
	b = append(b, 3)
	for _, a := range t.Bound {
		b = append(b, a.h[:]...)
	}
	b = append(b, 4)
	for _, a := range t.Pats {
		b = append(b, a.h[:]...)
	}
	return sha256.Sum256(b)
}

// Hash returns the structural hash of the term.
func (t *Term) Hash() [32]byte { return t.h }

// PreludeHash is the hash of the fixed prelude (datatypes, wrap functions) that every query starts with.
func PreludeHash() [32]byte { return sha256.Sum256([]byte(Prelude)) }

// canonBound renames the bound variables of a quantifier to names determined by the nesting depth of the body, so that
// alpha-equivalent quantified formulas are the same term.
func canonBound(bound []*Term, body *Term, pats []*Term) ([]*Term, *Term, []*Term) {
	m := map[*Term]*Term{}
	nb := make([]*Term, len(bound))
	for i, b := range bound {
		c := Var(fmt.Sprintf("bv!%d!%d!%s", body.qd, i, Mangle(string(b.S))), b.S)
		nb[i] = c
		if c != b {
			m[b] = c
		}
	}
	if len(m) == 0 {
		return bound, body, pats
	}
	body = Subst(body, m)
	if len(pats) > 0 {
		np := make([]*Term, len(pats))
		for i, p := range pats {
			np[i] = Subst(p, m)
		}
		pats = np
	}
	return nb, body, pats
}

// ID returns the unique id of the term.
func (t *Term) ID() int { return t.id }

var (
	True  = intern(&Term{Op: "bool", S: Bool, B: true})
	False = intern(&Term{Op: "bool", S: Bool, B: false})
)

func init() {
	True = intern(&Term{Op: "bool", S: Bool, B: true})
	False = intern(&Term{Op: "bool", S: Bool, B: false})
}

// ReInit re-creates the constants after Reset.
func ReInit() {
	True = intern(&Term{Op: "bool", S: Bool, B: true})
	False = intern(&Term{Op: "bool", S: Bool, B: false})
}

// IntC makes an integer constant.
func IntC(v int64) *Term { return intern(&Term{Op: "const", S: Int, Val: big.NewInt(v)}) }

// BigC makes an integer constant from a big.Int.
func BigC(v *big.Int) *Term { return intern(&Term{Op: "const", S: Int, Val: new(big.Int).Set(v)}) }

// BoolC makes a bool constant.
func BoolC(b bool) *Term {
	if b {
		return True
	}
	return False
}

// Var makes a free variable (declared as a constant in SMT).
func Var(name string, s Sort) *Term { return intern(&Term{Op: "var", S: s, Name: name}) }

var freshCtr = map[string]int{}
var freshScope = ""

// SetFreshScope starts a new naming scope for fresh variables: the counters restart and every name carries the scope
// tag. The verification conditions of a function are generated inside the scope of that function, so their text (and
// with it the answer-cache key) does not depend on which other functions were verified before it in the same run,
// while names of different scopes can never coincide (terms cached across functions keep their own scope tag).
func SetFreshScope(scope string) {
	freshCtr = map[string]int{}
	freshScope = scope
}

// Fresh makes a fresh variable with the given name hint.
func Fresh(hint string, s Sort) *Term {
	hint = Mangle(hint)
	freshCtr[hint]++
	return Var(fmt.Sprintf("%s!%s%d", hint, freshScope, freshCtr[hint]), s)
}

// Mangle turns an arbitrary string into a safe SMT symbol body.
func Mangle(s string) string {
	var sb strings.Builder
	for _, r := range s {
		switch {
		case r >= 'a' && r <= 'z', r >= 'A' && r <= 'Z', r >= '0' && r <= '9', r == '_', r == '.', r == '!', r == '$':
			sb.WriteRune(r)
		default:
			sb.WriteByte('_')
		}
	}
	return sb.String()
}

// IsConst reports whether t is an integer constant.
func (t *Term) IsConst() bool { return t.Op == "const" }

// IsBoolConst reports whether t is a bool constant.
func (t *Term) IsBoolConst() bool { return t.Op == "bool" }

// Int64 returns the constant's value (must be IsConst and fit).
func (t *Term) Int64() int64 { return t.Val.Int64() }

func mk(op string, s Sort, args ...*Term) *Term {
	return intern(&Term{Op: op, S: s, Args: args})
}

// App applies an uninterpreted or defined function.
func App(name string, res Sort, args ...*Term) *Term {
	if d, ok := FunDefs[name]; ok && d.Table != nil && len(args) == 1 && args[0].IsConst() {
		i := args[0].Val
		if i.IsInt64() && i.Int64() >= 0 && i.Int64() < int64(len(d.Table)) {
			return IntC(d.Table[i.Int64()])
		}
	}
	return intern(&Term{Op: "app", S: res, Name: name, Args: args})
}

// DeclareFun registers an uninterpreted function.
func DeclareFun(name string, args []Sort, res Sort) {
	FunDecls[name] = FunDecl{Args: args, Res: res}
}

// lin is a linear form: K + sum coeff*atom.
type lin struct {
	k     *big.Int
	atoms map[*Term]*big.Int
}

func linOf(t *Term) lin {
	l := lin{k: new(big.Int), atoms: map[*Term]*big.Int{}}
	linAdd(&l, t, big.NewInt(1))
	return l
}

func linAdd(l *lin, t *Term, c *big.Int) {
	switch {
	case t.Op == "const":
		l.k.Add(l.k, new(big.Int).Mul(c, t.Val))
	case t.Op == "+":
		for _, a := range t.Args {
			linAdd(l, a, c)
		}
	case t.Op == "-" && len(t.Args) == 2:
		linAdd(l, t.Args[0], c)
		linAdd(l, t.Args[1], new(big.Int).Neg(c))
	case t.Op == "*" && len(t.Args) == 2 && t.Args[0].IsConst():
		linAdd(l, t.Args[1], new(big.Int).Mul(c, t.Args[0].Val))
	case t.Op == "*" && len(t.Args) == 2 && t.Args[1].IsConst():
		linAdd(l, t.Args[0], new(big.Int).Mul(c, t.Args[1].Val))
	default:
		if o, ok := l.atoms[t]; ok {
			o.Add(o, c)
			if o.Sign() == 0 {
				delete(l.atoms, t)
			}
		} else if c.Sign() != 0 {
			l.atoms[t] = new(big.Int).Set(c)
		}
	}
}

func (l lin) term() *Term {
	if len(l.atoms) == 0 {
		return BigC(l.k)
	}
	as := make([]*Term, 0, len(l.atoms))
	for a := range l.atoms {
		as = append(as, a)
	}
	sort.Slice(as, func(i, j int) bool { return as[i].id < as[j].id })
	args := make([]*Term, 0, len(as)+1)
	for _, a := range as {
		c := l.atoms[a]
		if c.IsInt64() && c.Int64() == 1 {
			args = append(args, a)
		} else {
			args = append(args, mk("*", Int, BigC(c), a))
		}
	}
	if l.k.Sign() != 0 {
		args = append(args, BigC(l.k))
	}
	if len(args) == 1 {
		return args[0]
	}
	return mk("+", Int, args...)
}

// Add builds a+b in linear normal form.
func Add(a, b *Term) *Term {
	if a.IsConst() && b.IsConst() {
		return BigC(new(big.Int).Add(a.Val, b.Val))
	}
	l := linOf(a)
	linAdd(&l, b, big.NewInt(1))
	return l.term()
}

// Sub builds a-b in linear normal form.
func Sub(a, b *Term) *Term {
	if a.IsConst() && b.IsConst() {
		return BigC(new(big.Int).Sub(a.Val, b.Val))
	}
	l := linOf(a)
	linAdd(&l, b, big.NewInt(-1))
	return l.term()
}

// cmpConst decides a-b against zero when the difference is constant.
func cmpConst(a, b *Term) (int, bool) {
	if a.S != Int {
		return 0, false
	}
	l := linOf(a)
	linAdd(&l, b, big.NewInt(-1))
	if len(l.atoms) == 0 {
		return l.k.Sign(), true
	}
	return 0, false
}

// Neg builds -a.
func Neg(a *Term) *Term { return Sub(IntC(0), a) }

// Mul builds a*b.
func Mul(a, b *Term) *Term {
	if a.IsConst() && b.IsConst() {
		return BigC(new(big.Int).Mul(a.Val, b.Val))
	}
	if a.IsConst() && a.Val.Sign() == 0 || b.IsConst() && b.Val.Sign() == 0 {
		return IntC(0)
	}
	if a.IsConst() && a.Val.IsInt64() && a.Val.Int64() == 1 {
		return b
	}
	if b.IsConst() && b.Val.IsInt64() && b.Val.Int64() == 1 {
		return a
	}
	if a.IsConst() || b.IsConst() {
		l := lin{k: new(big.Int), atoms: map[*Term]*big.Int{}}
		if a.IsConst() {
			linAdd(&l, b, a.Val)
		} else {
			linAdd(&l, a, b.Val)
		}
		return l.term()
	}
	return mk("*", Int, a, b)
}

// Div builds SMT floor-style div (euclidean as in SMT-LIB).
func Div(a, b *Term) *Term {
	if a.IsConst() && b.IsConst() && b.Val.Sign() != 0 {
		q, _ := new(big.Int).DivMod(a.Val, b.Val, new(big.Int))
		return BigC(q)
	}
	return mk("div", Int, a, b)
}

// Mod builds SMT mod (euclidean).
func Mod(a, b *Term) *Term {
	if a.IsConst() && b.IsConst() && b.Val.Sign() != 0 {
		_, m := new(big.Int).DivMod(a.Val, b.Val, new(big.Int))
		return BigC(m)
	}
	return mk("mod", Int, a, b)
}

// Lt builds a<b.
func Lt(a, b *Term) *Term {
	if a.IsConst() && b.IsConst() {
		return BoolC(a.Val.Cmp(b.Val) < 0)
	}
	if a == b {
		return False
	}
	if c, ok := cmpConst(a, b); ok {
		return BoolC(c < 0)
	}
	return mk("<", Bool, a, b)
}

// Le builds a<=b.
func Le(a, b *Term) *Term {
	if a.IsConst() && b.IsConst() {
		return BoolC(a.Val.Cmp(b.Val) <= 0)
	}
	if a == b {
		return True
	}
	if c, ok := cmpConst(a, b); ok {
		return BoolC(c <= 0)
	}
	return mk("<=", Bool, a, b)
}

// Gt builds a>b.
func Gt(a, b *Term) *Term { return Lt(b, a) }

// Ge builds a>=b.
func Ge(a, b *Term) *Term { return Le(b, a) }

// Eq builds a=b (any sort).
func Eq(a, b *Term) *Term {
	if a == b {
		return True
	}
	if a.S != b.S {
		panic(fmt.Sprintf("smt.Eq sort mismatch: %s:%s vs %s:%s", a, a.S, b, b.S))
	}
	if a.IsConst() && b.IsConst() {
		return BoolC(a.Val.Cmp(b.Val) == 0)
	}
	if a.IsBoolConst() && b.IsBoolConst() {
		return BoolC(a.B == b.B)
	}
	if c, ok := cmpConst(a, b); ok {
		return BoolC(c == 0)
	}
	if a.S == Bool {
		if a.IsBoolConst() {
			if a.B {
				return b
			}
			return Not(b)
		}
		if b.IsBoolConst() {
			if b.B {
				return a
			}
			return Not(a)
		}
	}
	if ca, ok := DistinctConsts[a]; ok {
		if cb, ok := DistinctConsts[b]; ok {
			return BoolC(ca == cb)
		}
	}
	// table-range pruning: tbl(x) == c where c not in range
	if r := tableEq(a, b); r != nil {
		return r
	}
	if r := tableEq(b, a); r != nil {
		return r
	}
	// ite(c, k1, k2) == k  with constants
	if b.IsConst() && a.Op == "ite" && a.Args[1].IsConst() && a.Args[2].IsConst() {
		return Ite(a.Args[0], Eq(a.Args[1], b), Eq(a.Args[2], b))
	}
	if a.IsConst() && b.Op == "ite" && b.Args[1].IsConst() && b.Args[2].IsConst() {
		return Ite(b.Args[0], Eq(b.Args[1], a), Eq(b.Args[2], a))
	}
	// datatype constructor equality
	if a.Op == "app" && b.Op == "app" && IsCtor(a.Name) && IsCtor(b.Name) {
		if a.Name != b.Name {
			return False
		}
		cs := make([]*Term, 0, len(a.Args))
		for i := range a.Args {
			cs = append(cs, Eq(a.Args[i], b.Args[i]))
		}
		return And(cs...)
	}
	if a.id > b.id {
		a, b = b, a
	}
	return mk("=", Bool, a, b)
}

func tableEq(a, b *Term) *Term {
	if a.Op == "app" && b.IsConst() {
		if d, ok := FunDefs[a.Name]; ok && d.Range != nil {
			if !b.Val.IsInt64() || !d.Range[b.Val.Int64()] {
				return False
			}
		}
	}
	return nil
}

// DistinctConsts maps constant-array variables to their contents; two of them
// are equal iff the contents are equal.
var DistinctConsts = map[*Term]string{}

// Ctors is the set of datatype constructor names (for simplification).
var Ctors = map[string]bool{}

// IsCtor reports whether name is a registered datatype constructor.
func IsCtor(name string) bool { return Ctors[name] }

// Ne builds a != b.
func Ne(a, b *Term) *Term { return Not(Eq(a, b)) }

// Not builds logical negation.
func Not(a *Term) *Term {
	if a.IsBoolConst() {
		return BoolC(!a.B)
	}
	if a.Op == "not" {
		return a.Args[0]
	}
	return mk("not", Bool, a)
}

// And builds a conjunction.
func And(as ...*Term) *Term {
	var out []*Term
	seen := map[int]bool{}
	for _, a := range as {
		if a.IsBoolConst() {
			if !a.B {
				return False
			}
			continue
		}
		if a.Op == "and" {
			for _, x := range a.Args {
				if !seen[x.id] {
					seen[x.id] = true
					out = append(out, x)
				}
			}
			continue
		}
		if !seen[a.id] {
			seen[a.id] = true
			out = append(out, a)
		}
	}
	for _, a := range out {
		if a.Op == "not" && seen[a.Args[0].id] {
			return False
		}
	}
	switch len(out) {
	case 0:
		return True
	case 1:
		return out[0]
	}
	return mk("and", Bool, out...)
}

// Or builds a disjunction.
func Or(as ...*Term) *Term {
	var out []*Term
	seen := map[int]bool{}
	for _, a := range as {
		if a.IsBoolConst() {
			if a.B {
				return True
			}
			continue
		}
		if a.Op == "or" {
			for _, x := range a.Args {
				if !seen[x.id] {
					seen[x.id] = true
					out = append(out, x)
				}
			}
			continue
		}
		if !seen[a.id] {
			seen[a.id] = true
			out = append(out, a)
		}
	}
	for _, a := range out {
		if a.Op == "not" && seen[a.Args[0].id] {
			return True
		}
	}
	switch len(out) {
	case 0:
		return False
	case 1:
		return out[0]
	}
	return mk("or", Bool, out...)
}

// Implies builds a => b.
func Implies(a, b *Term) *Term {
	if a.IsBoolConst() {
		if a.B {
			return b
		}
		return True
	}
	if b.IsBoolConst() {
		if b.B {
			return True
		}
		return Not(a)
	}
	return mk("=>", Bool, a, b)
}

// Ite builds if-then-else of any sort.
func Ite(c, a, b *Term) *Term {
	if c.IsBoolConst() {
		if c.B {
			return a
		}
		return b
	}
	if a == b {
		return a
	}
	if a.S != b.S {
		panic(fmt.Sprintf("smt.Ite sort mismatch: %s vs %s", a.S, b.S))
	}
	if a.S == Bool {
		if a.IsBoolConst() && b.IsBoolConst() {
			if a.B {
				return c
			}
			return Not(c)
		}
		if a.IsBoolConst() {
			if a.B {
				return Or(c, b)
			}
			return And(Not(c), b)
		}
		if b.IsBoolConst() {
			if b.B {
				return Or(Not(c), a)
			}
			return And(c, a)
		}
	}
	return mk("ite", a.S, c, a, b)
}

var selCache = map[[2]int]*Term{}

// Select builds array read.
func Select(a, i *Term) *Term {
	k := [2]int{a.id, i.id}
	if r, ok := selCache[k]; ok {
		return r
	}
	r := select1(a, i)
	selCache[k] = r
	return r
}

func select1(a, i *Term) *Term {
	es := ElemOf(a.S)
	for a.Op == "store" {
		if a.Args[1] == i {
			return a.Args[2]
		}
		// Distinct constants: skip this store.
		if a.Args[1].IsConst() && i.IsConst() {
			a = a.Args[0]
			continue
		}
		if distinctOffsets(a.Args[1], i) {
			a = a.Args[0]
			continue
		}
		break
	}
	if a.Op == "ite" {
		// push select through ite of arrays only when both sides simplify
		x := Select(a.Args[1], i)
		y := Select(a.Args[2], i)
		return Ite(a.Args[0], x, y)
	}
	if a.Op == "constarr" {
		return a.Args[0]
	}
	return mk("select", es, a, i)
}

// distinctOffsets reports x != y when they are the same base plus different constants.
func distinctOffsets(x, y *Term) bool {
	if x.S != Int {
		return false
	}
	c, ok := cmpConst(x, y)
	return ok && c != 0
}

func splitOffset(x *Term) (*Term, *big.Int) {
	if x.IsConst() {
		return nil, x.Val
	}
	if x.Op == "+" && len(x.Args) == 2 && x.Args[1].IsConst() {
		return x.Args[0], x.Args[1].Val
	}
	return x, big.NewInt(0)
}

// Store builds array write.
func Store(a, i, v *Term) *Term {
	if a.Op == "store" && a.Args[1] == i {
		a = a.Args[0]
	}
	if ElemOf(a.S) != v.S {
		panic(fmt.Sprintf("smt.Store sort mismatch: array %s value %s", a.S, v.S))
	}
	return mk("store", a.S, a, i, v)
}

// ConstArr builds a constant array.
func ConstArr(s Sort, v *Term) *Term { return mk("constarr", s, v) }

// Forall builds a universally quantified formula.
func Forall(bound []*Term, body *Term, pats ...*Term) *Term {
	if body.IsBoolConst() {
		return body
	}
	bound, body, pats = canonBound(bound, body, pats)
	return intern(&Term{Op: "forall", S: Bool, Args: []*Term{body}, Bound: bound, Pats: pats})
}

// Exists builds an existentially quantified formula.
func Exists(bound []*Term, body *Term) *Term {
	if body.IsBoolConst() {
		return body
	}
	bound, body, _ = canonBound(bound, body, nil)
	return intern(&Term{Op: "exists", S: Bool, Args: []*Term{body}, Bound: bound})
}

// Subst replaces variables (or arbitrary subterms) according to m.
func Subst(t *Term, m map[*Term]*Term) *Term {
	if len(m) == 0 {
		return t
	}
	memo := map[*Term]*Term{}
	return subst(t, m, memo)
}

func subst(t *Term, m map[*Term]*Term, memo map[*Term]*Term) *Term {
	if r, ok := m[t]; ok {
		return r
	}
	if len(t.Args) == 0 {
		return t
	}
	if r, ok := memo[t]; ok {
		return r
	}
	if len(t.Bound) > 0 {
		// bound variables shadow the map
		shadow := false
		for _, b := range t.Bound {
			if _, ok := m[b]; ok {
				shadow = true
			}
		}
		if shadow {
			m2 := make(map[*Term]*Term, len(m))
			for k, v := range m {
				m2[k] = v
			}
			for _, b := range t.Bound {
				delete(m2, b)
			}
			r := t
			if len(m2) > 0 {
				nb := subst(t.Args[0], m2, map[*Term]*Term{})
				if nb != t.Args[0] {
					r = Rebuild(t, []*Term{nb})
				}
			}
			memo[t] = r
			return r
		}
	}
	if t.Op == "forall" && len(t.Pats) > 0 {
		nb := subst(t.Args[0], m, memo)
		pats := make([]*Term, len(t.Pats))
		same := nb == t.Args[0]
		for i, p := range t.Pats {
			pats[i] = subst(p, m, memo)
			if pats[i] != p {
				same = false
			}
		}
		r := t
		if !same {
			r = Forall(t.Bound, nb, pats...)
		}
		memo[t] = r
		return r
	}
	changed := false
	args := make([]*Term, len(t.Args))
	for i, a := range t.Args {
		args[i] = subst(a, m, memo)
		if args[i] != a {
			changed = true
		}
	}
	var r *Term
	if !changed {
		r = t
	} else {
		r = Rebuild(t, args)
	}
	memo[t] = r
	return r
}

// Rebuild reconstructs t with new args through the simplifying constructors.
func Rebuild(t *Term, args []*Term) *Term {
	switch t.Op {
	case "+":
		r := args[0]
		for _, x := range args[1:] {
			r = Add(r, x)
		}
		return r
	case "-":
		return Sub(args[0], args[1])
	case "*":
		return Mul(args[0], args[1])
	case "div":
		return Div(args[0], args[1])
	case "mod":
		return Mod(args[0], args[1])
	case "<":
		return Lt(args[0], args[1])
	case "<=":
		return Le(args[0], args[1])
	case "=":
		return Eq(args[0], args[1])
	case "not":
		return Not(args[0])
	case "and":
		return And(args...)
	case "or":
		return Or(args...)
	case "=>":
		return Implies(args[0], args[1])
	case "ite":
		return Ite(args[0], args[1], args[2])
	case "select":
		return Select(args[0], args[1])
	case "store":
		return Store(args[0], args[1], args[2])
	case "constarr":
		return ConstArr(t.S, args[0])
	case "app":
		return AppS(t.Name, t.S, args...)
	case "forall":
		pats := make([]*Term, len(t.Pats))
		copy(pats, t.Pats)
		return Forall(t.Bound, args[0], pats...)
	case "exists":
		return Exists(t.Bound, args[0])
	}
	return intern(&Term{Op: t.Op, S: t.S, Name: t.Name, Args: args, Bound: t.Bound, Pats: t.Pats})
}

// AppS is App plus datatype selector/tester simplification.
func AppS(name string, res Sort, args ...*Term) *Term {
	if len(args) == 1 && args[0].Op == "app" && IsCtor(args[0].Name) {
		c := args[0]
		if info, ok := selectors[name]; ok {
			if info.ctor == c.Name {
				return c.Args[info.idx]
			}
		}
		if strings.HasPrefix(name, "is-") {
			return BoolC(name[3:] == c.Name)
		}
	}
	if len(args) == 1 && args[0].Op == "ite" {
		if _, ok := selectors[name]; ok || strings.HasPrefix(name, "is-") {
			a := args[0]
			x := AppS(name, res, a.Args[1])
			y := AppS(name, res, a.Args[2])
			if x.Op != "app" || y.Op != "app" || x.IsBoolConst() || y.IsBoolConst() {
				return Ite(a.Args[0], x, y)
			}
		}
	}
	return App(name, res, args...)
}

type selInfo struct {
	ctor string
	idx  int
}

var selectors = map[string]selInfo{}

// RegisterCtor registers a datatype constructor with its selector names.
func RegisterCtor(ctor string, sels ...string) {
	Ctors[ctor] = true
	for i, s := range sels {
		selectors[s] = selInfo{ctor, i}
	}
}

// FreeVars collects free variables and applied function names in the terms.
// Bound variables are globally unique (created by Fresh), so a variable is
// either bound everywhere or free everywhere; both passes are memoised DAG walks.
func FreeVars(ts []*Term) (vars []*Term, funs []string) {
	boundSet := map[*Term]bool{}
	seen := map[*Term]bool{}
	var pre func(t *Term)
	pre = func(t *Term) {
		if seen[t] {
			return
		}
		seen[t] = true
		for _, b := range t.Bound {
			boundSet[b] = true
		}
		for _, a := range t.Args {
			pre(a)
		}
		for _, a := range t.Pats {
			pre(a)
		}
	}
	for _, t := range ts {
		pre(t)
	}
	vset := map[*Term]bool{}
	fset := map[string]bool{}
	seen2 := map[*Term]bool{}
	var walk func(t *Term)
	walk = func(t *Term) {
		if seen2[t] {
			return
		}
		seen2[t] = true
		switch t.Op {
		case "var":
			if !boundSet[t] {
				vset[t] = true
			}
		case "app":
			fset[t.Name] = true
		}
		for _, a := range t.Args {
			walk(a)
		}
		for _, a := range t.Pats {
			walk(a)
		}
	}
	for _, t := range ts {
		walk(t)
	}
	for v := range vset {
		vars = append(vars, v)
	}
	sort.Slice(vars, func(i, j int) bool { return vars[i].Name < vars[j].Name })
	for f := range fset {
		funs = append(funs, f)
	}
	sort.Strings(funs)
	return
}

func (t *Term) String() string {
	var sb strings.Builder
	budget := 400
	t.short(&sb, &budget, 0)
	return sb.String()
}

// short prints a bounded rendering (terms are DAGs; a full tree print can be exponential).
func (t *Term) short(sb *strings.Builder, budget *int, depth int) {
	if *budget <= 0 || depth > 12 {
		sb.WriteString("..")
		return
	}
	*budget--
	switch t.Op {
	case "const":
		sb.WriteString(t.Val.String())
	case "bool":
		fmt.Fprint(sb, t.B)
	case "var":
		sb.WriteString(t.Name)
	default:
		sb.WriteByte('(')
		if t.Op == "app" {
			sb.WriteString(t.Name)
		} else {
			sb.WriteString(t.Op)
		}
		for _, a := range t.Args {
			sb.WriteByte(' ')
			a.short(sb, budget, depth+1)
		}
		sb.WriteByte(')')
	}
}

// Rebase rewrites a quantified body so that the bound variable jv is replaced
// by an absolute array index: if the body reads select(arr, base + jv) (jv with
// coefficient one, base free of jv) then jv := a - base for a fresh bound a, so
// the read becomes select(arr, a) and E-matching on ground selects works.
func Rebase(jv *Term, body *Term) (*Term, *Term) {
	var base *Term
	seen := map[*Term]bool{}
	bare := false
	var find func(t *Term)
	find = func(t *Term) {
		if bare || seen[t] {
			return
		}
		seen[t] = true
		if t.Op == "select" && t.Args[1] == jv && !contains(t.Args[0], jv) {
			// the bound variable already indexes an array directly: that read is the trigger
			bare = true
			return
		}
		if base == nil && t.Op == "select" && t.Args[1] != jv {
			l := linOf(t.Args[1])
			if c, ok := l.atoms[jv]; ok && c.IsInt64() && c.Int64() == 1 && len(l.atoms) >= 1 {
				delete(l.atoms, jv)
				b := l.term()
				if !contains(b, jv) && !contains(t.Args[0], jv) && !(b.IsConst() && b.Val.Sign() == 0) {
					base = b
				}
			}
		}
		for _, a := range t.Args {
			find(a)
		}
	}
	find(body)
	if base == nil || bare {
		return jv, body
	}
	a := Fresh("a!q", Int)
	nb := Subst(body, map[*Term]*Term{jv: Sub(a, base)})
	return a, nb
}

func contains(t, v *Term) bool {
	memo := map[*Term]bool{}
	var f func(t *Term) bool
	f = func(t *Term) bool {
		if t == v {
			return true
		}
		if r, ok := memo[t]; ok {
			return r
		}
		r := false
		for _, a := range t.Args {
			if f(a) {
				r = true
				break
			}
		}
		memo[t] = r
		return r
	}
	return f(t)
}
