package smt

import (
	"fmt"
	"sort"
	"strings"
)

type printer struct {
	sb     *strings.Builder
	names  map[*Term]string // shared closed subterms already defined
	letCtr int
}

func sym(name string) string {
	simple := true
	for _, r := range name {
		if !(r >= 'a' && r <= 'z' || r >= 'A' && r <= 'Z' || r >= '0' && r <= '9' || r == '_' || r == '.' || r == '!' || r == '$' || r == '-') {
			simple = false
			break
		}
	}
	if simple && name != "" && !(name[0] >= '0' && name[0] <= '9') {
		return name
	}
	return "|" + strings.NewReplacer("|", "_", "\\", "_").Replace(name) + "|"
}

func (p *printer) term(t *Term) {
	if n, ok := p.names[t]; ok {
		p.sb.WriteString(n)
		return
	}
	switch t.Op {
	case "const":
		if t.Val.Sign() < 0 {
			fmt.Fprintf(p.sb, "(- %s)", t.Val.String()[1:])
		} else {
			p.sb.WriteString(t.Val.String())
		}
	case "bool":
		if t.B {
			p.sb.WriteString("true")
		} else {
			p.sb.WriteString("false")
		}
	case "var":
		p.sb.WriteString(sym(t.Name))
	case "app":
		if len(t.Args) == 0 {
			if IsCtor(t.Name) {
				p.sb.WriteString(sym(t.Name))
			} else {
				p.sb.WriteString(sym(t.Name))
			}
			return
		}
		p.sb.WriteByte('(')
		if strings.HasPrefix(t.Name, "is-") {
			fmt.Fprintf(p.sb, "(_ is %s)", sym(t.Name[3:]))
		} else {
			p.sb.WriteString(sym(t.Name))
		}
		for _, a := range t.Args {
			p.sb.WriteByte(' ')
			p.term(a)
		}
		p.sb.WriteByte(')')
	case "constarr":
		fmt.Fprintf(p.sb, "((as const %s) ", t.S)
		p.term(t.Args[0])
		p.sb.WriteByte(')')
	case "forall", "exists":
		fmt.Fprintf(p.sb, "(%s (", t.Op)
		for i, b := range t.Bound {
			if i > 0 {
				p.sb.WriteByte(' ')
			}
			fmt.Fprintf(p.sb, "(%s %s)", sym(b.Name), b.S)
		}
		p.sb.WriteString(") ")
		if len(t.Pats) > 0 {
			p.sb.WriteString("(! ")
		}
		// shared subterms of the body that are not named globally (they contain a bound variable) are let-bound
		refs := map[*Term]int{}
		var order []*Term
		var count func(x *Term)
		count = func(x *Term) {
			if _, named := p.names[x]; named {
				return
			}
			refs[x]++
			if refs[x] > 1 {
				return
			}
			for _, a := range x.Args {
				count(a)
			}
			order = append(order, x)
		}
		count(t.Args[0])
		lets := 0
		var bound []*Term
		for _, x := range order {
			if refs[x] > 1 && len(x.Args) > 0 && x != t.Args[0] {
				name := fmt.Sprintf("l!%d", p.letCtr)
				p.letCtr++
				fmt.Fprintf(p.sb, "(let ((%s ", name)
				p.term(x)
				p.sb.WriteString(")) ")
				p.names[x] = name
				bound = append(bound, x)
				lets++
			}
		}
		p.term(t.Args[0])
		for i := 0; i < lets; i++ {
			p.sb.WriteByte(')')
		}
		for _, x := range bound {
			delete(p.names, x)
		}
		if len(t.Pats) > 0 {
			p.sb.WriteString(" :pattern (")
			for i, pt := range t.Pats {
				if i > 0 {
					p.sb.WriteByte(' ')
				}
				p.term(pt)
			}
			p.sb.WriteString("))")
		}
		p.sb.WriteByte(')')
	default:
		p.sb.WriteByte('(')
		p.sb.WriteString(t.Op)
		for _, a := range t.Args {
			p.sb.WriteByte(' ')
			p.term(a)
		}
		p.sb.WriteByte(')')
	}
}

// Prelude is emitted at the top of every query (datatypes etc.).
var Prelude = ""

// Query is one SMT problem: hyps /\ not goal.
type Query struct {
	Hyps []*Term
	Goal *Term // nil means check satisfiability of Hyps only
	// Values whose model values should be reported on sat.
	Report []*Term
}

// Script renders the query as SMT-LIB2 text. If models is true get-value
// commands are appended.
func (q *Query) Script(models bool) string {
	var all []*Term
	all = append(all, q.Hyps...)
	var ng *Term
	if q.Goal != nil {
		ng = Not(q.Goal)
		all = append(all, ng)
	}
	all = append(all, q.Report...)
	// collect function definitions used, transitively
	usedDefs := map[string]bool{}
	var defOrder []string
	var extra []*Term
	var collect func(ts []*Term)
	collect = func(ts []*Term) {
		_, funs := FreeVars(ts)
		for _, f := range funs {
			if d, ok := FunDefs[f]; ok && !usedDefs[f] {
				usedDefs[f] = true
				if d.Body != nil {
					collect([]*Term{d.Body})
					extra = append(extra, d.Body)
				}
				defOrder = append(defOrder, f)
			}
		}
	}
	collect(all)
	vars, funs := FreeVars(append(append([]*Term{}, all...), extra...))
	// remove params of defined functions from vars
	paramSet := map[*Term]bool{}
	for f := range usedDefs {
		for _, p := range FunDefs[f].Params {
			paramSet[p] = true
		}
	}
	var sb strings.Builder
	sb.WriteString("(set-option :produce-models true)\n(set-logic ALL)\n")
	sb.WriteString(Prelude)
	for _, v := range vars {
		if paramSet[v] {
			continue
		}
		fmt.Fprintf(&sb, "(declare-const %s %s)\n", sym(v.Name), v.S)
	}
	for _, f := range funs {
		if d, ok := FunDecls[f]; ok {
			as := make([]string, len(d.Args))
			for i, a := range d.Args {
				as[i] = string(a)
			}
			fmt.Fprintf(&sb, "(declare-fun %s (%s) %s)\n", sym(f), strings.Join(as, " "), d.Res)
		}
	}
	p := &printer{sb: &sb, names: map[*Term]string{}}
	for _, f := range defOrder {
		d := FunDefs[f]
		fmt.Fprintf(&sb, "(define-fun %s (", sym(f))
		for i, pr := range d.Params {
			if i > 0 {
				sb.WriteByte(' ')
			}
			fmt.Fprintf(&sb, "(%s %s)", sym(pr.Name), pr.S)
		}
		fmt.Fprintf(&sb, ") %s ", d.Res)
		if d.Raw != "" {
			sb.WriteString(d.Raw)
		} else {
			p.term(d.Body)
		}
		sb.WriteString(")\n")
	}
	// shared closed subterms → define-fun constants
	boundVars := map[*Term]bool{}
	refs := map[*Term]int{}
	var order []*Term
	visited := map[*Term]bool{}
	var walk func(t *Term)
	walk = func(t *Term) {
		refs[t]++
		if visited[t] {
			return
		}
		visited[t] = true
		for _, b := range t.Bound {
			boundVars[b] = true
		}
		for _, a := range t.Args {
			walk(a)
		}
		for _, a := range t.Pats {
			walk(a)
		}
		order = append(order, t) // post-order
	}
	for _, t := range all {
		walk(t)
	}
	for pv := range paramSet {
		boundVars[pv] = true
	}
	open := map[*Term]bool{}
	for _, t := range order {
		if t.Op == "var" && boundVars[t] {
			open[t] = true
			continue
		}
		for _, a := range t.Args {
			if open[a] {
				open[t] = true
				break
			}
		}
	}
	n := 0
	for _, t := range order {
		if refs[t] > 1 && !open[t] && len(t.Args) > 0 && t.Op != "const" {
			name := fmt.Sprintf("s!%d", n)
			n++
			fmt.Fprintf(&sb, "(define-fun %s () %s ", name, t.S)
			p.term(t)
			sb.WriteString(")\n")
			p.names[t] = name
		}
	}
	for _, h := range q.Hyps {
		sb.WriteString("(assert ")
		p.term(h)
		sb.WriteString(")\n")
	}
	if ng != nil {
		sb.WriteString("(assert ")
		p.term(ng)
		sb.WriteString(")\n")
	}
	sb.WriteString("(check-sat)\n")
	if models {
		rep := q.Report
		if len(rep) == 0 {
			for _, v := range vars {
				if paramSet[v] {
					continue
				}
				if v.S == Int || v.S == Bool {
					rep = append(rep, v)
				}
			}
		}
		if len(rep) > 0 {
			sb.WriteString("(get-value (")
			for i, r := range rep {
				if i > 0 {
					sb.WriteByte(' ')
				}
				p.term(r)
			}
			sb.WriteString("))\n")
		}
	}
	return sb.String()
}

// DefineTable registers a table function name(i) with run-length ite encoding.
func DefineTable(name string, vals []int64, dflt int64) {
	if _, ok := FunDefs[name]; ok {
		return
	}
	i := Var("i", Int)
	var sb strings.Builder
	// runs
	type run struct {
		end int // exclusive
		v   int64
	}
	var runs []run
	for k, v := range vals {
		if len(runs) > 0 && runs[len(runs)-1].v == v {
			runs[len(runs)-1].end = k + 1
		} else {
			runs = append(runs, run{k + 1, v})
		}
	}
	closers := 0
	sb.WriteString("(ite (< i 0) ")
	sb.WriteString(num(dflt))
	sb.WriteByte(' ')
	closers++
	for _, r := range runs {
		fmt.Fprintf(&sb, "(ite (< i %d) %s ", r.end, num(r.v))
		closers++
	}
	sb.WriteString(num(dflt))
	sb.WriteString(strings.Repeat(")", closers))
	rng := map[int64]bool{dflt: true}
	for _, v := range vals {
		rng[v] = true
	}
	tbl := make([]int64, len(vals))
	copy(tbl, vals)
	FunDefs[name] = &FunDef{Name: name, Params: []*Term{i}, Res: Int, Raw: sb.String(), Range: rng, Table: tbl}
}

func num(v int64) string {
	if v < 0 {
		return fmt.Sprintf("(- %d)", -v)
	}
	return fmt.Sprintf("%d", v)
}

// SortedKeys is a helper for deterministic iteration.
func SortedKeys[V any](m map[string]V) []string {
	ks := make([]string, 0, len(m))
	for k := range m {
		ks = append(ks, k)
	}
	sort.Strings(ks)
	return ks
}
