// Package solve runs SMT solvers on query scripts.
package solve

import (
	"bytes"
	"context"
	"os/exec"
	"strings"
	"sync"
	"time"
)

// Result of one solver on one query.
type Result struct {
	Solver string
	Answer string // "unsat", "sat", "unknown", "timeout", "error"
	Output string
	Secs   float64
}

// Solver describes one back end.
type Solver struct {
	Name string
	Cmd  []string // args; script is passed on stdin
	TOpt func(ms int) []string
}

// Solvers available in the sandbox, in preference order.
var Solvers = []Solver{
	{Name: "z3-new", Cmd: []string{"z3-new", "-in", "-smt2"}, TOpt: func(ms int) []string { return []string{"-t:" + itoa(ms)} }},
	{Name: "z3", Cmd: []string{"z3", "-in", "-smt2"}, TOpt: func(ms int) []string { return []string{"-t:" + itoa(ms)} }},
	{Name: "cvc5", Cmd: []string{"cvc5", "--lang", "smt2", "--produce-models"}, TOpt: func(ms int) []string { return []string{"--tlimit=" + itoa(ms)} }},
}

func itoa(i int) string {
	var b [20]byte
	n := len(b)
	if i == 0 {
		return "0"
	}
	for i > 0 {
		n--
		b[n] = byte('0' + i%10)
		i /= 10
	}
	return string(b[n:])
}

// Run one solver with a timeout.
func Run(s Solver, script string, timeout time.Duration) Result {
	return RunCtx(context.Background(), s, script, timeout)
}

// Race runs all solvers at once; the first definite answer wins and stops the others.
func Race(script string, timeout time.Duration) Verdict {
	t0 := time.Now()
	ctx, cancel := context.WithCancel(context.Background())
	defer cancel()
	ch := make(chan Result, len(Solvers))
	for _, s := range Solvers {
		go func(s Solver) { ch <- RunCtx(ctx, s, script, timeout) }(s)
	}
	var v Verdict
	v.Status = "undecided"
	for range Solvers {
		r := <-ch
		v.Results = append(v.Results, r)
		if r.Answer == "unsat" || r.Answer == "sat" {
			v.Status, v.By = r.Answer, r.Solver
			break
		}
	}
	v.Secs = time.Since(t0).Seconds()
	return v
}

// RunCtx is Run under a cancellable context.
func RunCtx(parent context.Context, s Solver, script string, timeout time.Duration) Result {
	ctx, cancel := context.WithTimeout(parent, timeout+2*time.Second)
	defer cancel()
	args := append([]string{}, s.Cmd[1:]...)
	args = append(args, s.TOpt(int(timeout/time.Millisecond))...)
	cmd := exec.CommandContext(ctx, s.Cmd[0], args...)
	cmd.Stdin = strings.NewReader(script)
	var out bytes.Buffer
	cmd.Stdout = &out
	cmd.Stderr = &out
	t0 := time.Now()
	_ = cmd.Run()
	secs := time.Since(t0).Seconds()
	text := out.String()
	// the answer is the first line that is not a solver warning (z3 prints "WARNING: ... cannot be used in patterns"
	// lines before its answer; they are not errors)
	first := ""
	for _, l := range strings.Split(text, "\n") {
		l = strings.TrimSpace(l)
		if l == "" || strings.HasPrefix(l, "WARNING:") {
			continue
		}
		first = l
		break
	}
	ans := "error"
	switch first {
	case "unsat", "sat", "unknown":
		ans = first
	case "timeout":
		ans = "timeout"
	default:
		if ctx.Err() != nil {
			ans = "timeout"
		}
	}
	if ans == "unknown" && secs >= timeout.Seconds()*0.95 {
		ans = "timeout"
	}
	return Result{Solver: s.Name, Answer: ans, Output: text, Secs: secs}
}

// Verdict is the combined outcome for one query.
type Verdict struct {
	Status  string // "unsat", "sat", "undecided", "disagree"
	By      string // solver that decided
	Results []Result
	Secs    float64
}

// Decide runs the solvers on the script. Strategy: first solver alone with a
// short timeout; if undecided, the rest in parallel with the full timeout. If
// all is true every solver runs to completion and they must agree.
func Decide(script string, timeout time.Duration, all bool) Verdict {
	t0 := time.Now()
	var v Verdict
	if !all {
		quick := timeout
		if quick > 4*time.Second {
			quick = 4 * time.Second
		}
		r := Run(Solvers[0], script, quick)
		v.Results = append(v.Results, r)
		if r.Answer == "unsat" || r.Answer == "sat" {
			v.Status = r.Answer
			v.By = r.Solver
			v.Secs = time.Since(t0).Seconds()
			return v
		}
	}
	var wg sync.WaitGroup
	var mu sync.Mutex
	list := Solvers
	for _, s := range list {
		wg.Add(1)
		go func(s Solver) {
			defer wg.Done()
			r := Run(s, script, timeout)
			mu.Lock()
			v.Results = append(v.Results, r)
			mu.Unlock()
		}(s)
	}
	wg.Wait()
	nun, nsat := 0, 0
	for _, r := range v.Results {
		switch r.Answer {
		case "unsat":
			nun++
			if v.By == "" {
				v.By = r.Solver
			}
		case "sat":
			nsat++
		}
	}
	switch {
	case nun > 0 && nsat > 0:
		v.Status = "disagree"
	case nun > 0:
		v.Status = "unsat"
	case nsat > 0:
		v.Status = "sat"
		for _, r := range v.Results {
			if r.Answer == "sat" {
				v.By = r.Solver
			}
		}
	default:
		v.Status = "undecided"
	}
	v.Secs = time.Since(t0).Seconds()
	return v
}
