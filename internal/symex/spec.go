package symex

import (
	"fmt"
	"go/ast"
	"go/token"
	"go/types"
	"strings"

	"golang.org/x/tools/go/ssa"

	"verif/internal/smt"
)

var specCache = map[string]Value{}

func valueKey(v Value) string {
	var sb strings.Builder
	var walk func(v Value)
	walk = func(v Value) {
		switch x := v.(type) {
		case IntV:
			fmt.Fprintf(&sb, "i%d,", x.T.ID())
		case BoolV:
			fmt.Fprintf(&sb, "b%d,", x.T.ID())
		case FloatV:
			fmt.Fprintf(&sb, "f%d,", x.T.ID())
		case StrV:
			fmt.Fprintf(&sb, "s%d.%d.%d,", x.Arr.ID(), x.Off.ID(), x.Len.ID())
		case SeqV:
			fmt.Fprintf(&sb, "q%d.%d,", x.Arr.ID(), x.Len.ID())
		case SliceV:
			fmt.Fprintf(&sb, "l%d.%d.%d.%d,", x.Arr.ID(), x.Off.ID(), x.Len.ID(), x.Cap.ID())
		case RefV:
			fmt.Fprintf(&sb, "r%d,", x.T.ID())
		case AnyV:
			fmt.Fprintf(&sb, "a%d,", x.T.ID())
		case StructV:
			sb.WriteByte('{')
			for _, f := range x.Fields {
				walk(f)
			}
			sb.WriteByte('}')
		case TupleV:
			sb.WriteByte('(')
			for _, f := range x {
				walk(f)
			}
			sb.WriteByte(')')
		default:
			fmt.Fprintf(&sb, "?%T,", v)
		}
	}
	walk(v)
	return sb.String()
}

// foldOf returns the step function name if fn is marked //verif:fold Step.
func foldOf(fn *ssa.Function) string {
	fd, ok := fn.Syntax().(*ast.FuncDecl)
	if !ok || fd.Doc == nil {
		return ""
	}
	for _, c := range fd.Doc.List {
		if i := strings.Index(c.Text, "verif:fold "); i >= 0 {
			return strings.TrimSpace(c.Text[i+len("verif:fold "):])
		}
	}
	return ""
}

// callSpec evaluates a pure, loop-free Go function symbolically and merges
// the path results into one value.
func (e *Engine) callSpec(st *State, fn *ssa.Function, args []Value) Value {
	if step := foldOf(fn); step != "" {
		return e.foldApp(fn, args)
	}
	key := fn.String() + "|" + valueKey(TupleV(args))
	if v, ok := specCache[key]; ok {
		return v
	}
	if fn.Blocks == nil {
		panic(unsupported("spec function without body: " + fn.String()))
	}
	s0 := &State{cellVals: map[*Cell]Value{}, heaps: map[string]*smt.Term{}, facts: map[*smt.Term]bool{}, globals: map[*ssa.Global]Value{}, alloc: smt.IntC(1), pure: true, nonnil: map[*smt.Term]bool{}}
	s0.fr = newFrame(fn)
	for i, p := range fn.Params {
		s0.fr.regs[p] = args[i]
	}
	e.pure++
	savedCur := e.cur
	e.cur = &verifyCtx{fn: fn, loops: findLoops(fn)}
	if len(e.cur.loops) > 0 {
		panic(unsupported("spec function with loop: " + fn.String()))
	}
	outs := e.execBlock(s0, fn.Blocks[0], 0)
	e.cur = savedCur
	e.pure--
	if len(outs) == 0 {
		panic("spec function has no outcome: " + fn.String())
	}
	var res Value = outs[len(outs)-1].result
	for i := len(outs) - 2; i >= 0; i-- {
		if outs[i].panics {
			continue
		}
		c := smt.And(outs[i].st.pc.list()...)
		res = mergeValues(c, outs[i].result, res)
	}
	specCache[key] = res
	return res
}

// foldApp builds the uninterpreted application F(q, s, n) leaf by leaf.
func (e *Engine) foldApp(fn *ssa.Function, args []Value) Value {
	rt := fn.Signature.Results().At(0).Type()
	var argTerms []*smt.Term
	var argSorts []smt.Sort
	for i, a := range args {
		for _, t := range toLeaves(fn.Signature.Params().At(i).Type(), a) {
			argTerms = append(argTerms, t)
			argSorts = append(argSorts, t.S)
		}
	}
	ls := leavesOf(rt)
	ts := make([]*smt.Term, len(ls))
	for i, l := range ls {
		name := "fold_" + fn.Pkg.Pkg.Name() + "_" + fn.Name() + smt.Mangle(l.Suffix)
		if _, ok := smt.FunDecls[name]; !ok {
			smt.DeclareFun(name, argSorts, l.Sort)
		}
		ts[i] = smt.App(name, l.Sort, argTerms...)
	}
	return fromLeaves(rt, ts)
}

// unfoldInstance returns the axiom instance of a fold at index n:
//
//	F(q,s,0) == q  and  n >= 0 ==> F(q,s,n+1) == Step(F(q,s,n), s[n])
func (e *Engine) unfoldInstance(st *State, fn *ssa.Function, args []Value) *smt.Term {
	stepName := foldOf(fn)
	step, ok := fn.Pkg.Members[stepName].(*ssa.Function)
	if !ok {
		panic("fold step function not found: " + stepName)
	}
	q, s, n := args[0], args[1].(SeqV), args[2].(IntV).T
	count := int64(1)
	if len(args) > 3 {
		count = args[3].(IntV).T.Int64()
	}
	zero := e.foldApp(fn, []Value{q, s, IntV{smt.IntC(0)}})
	cs := []*smt.Term{e.valueEq(zero, q, true)}
	var cur Value = e.foldApp(fn, []Value{q, s, IntV{n}})
	for k := int64(0); k < count; k++ {
		nk := smt.Add(n, smt.IntC(k))
		next := e.foldApp(fn, []Value{q, s, IntV{smt.Add(nk, smt.IntC(1))}})
		b := smt.Select(s.Arr, nk)
		stepped := e.callSpec(st, step, []Value{cur, IntV{b}})
		cs = append(cs, smt.Implies(smt.Le(smt.IntC(0), n), e.valueEq(next, stepped, true)))
		// remember the unfolding as a rewrite (valid where n >= 0, which every use site guarantees through its bounds)
		if st != nil && !st.pure && !e.noRewrite {
			if k == 0 && e.cur != nil && e.pure == 0 {
				e.addOblig(st, "use-guard", "unfold index non-negative", []string{"SAFETY"}, smt.Le(smt.IntC(0), n), 0)
			}
			if st.rw == nil {
				st.rw = map[*smt.Term]*smt.Term{}
			}
			rt := fn.Signature.Results().At(0).Type()
			nl, sl := toLeaves(rt, next), toLeaves(rt, stepped)
			for i := range nl {
				if nl[i] != sl[i] && nl[i].Op == "app" {
					st.rw[nl[i]] = sl[i]
				}
			}
		}
		cur = stepped
	}
	return smt.And(cs...)
}

// intercept implements calls that are modelled natively: the spec prelude Seq
// type and a few pure standard-library functions.
func (e *Engine) intercept(st *State, f *ssa.Function, args []Value, pos token.Pos) (Value, bool) {
	if f.Signature.Recv() != nil && isSeqType(derefType(f.Signature.Recv().Type())) {
		s := args[0].(SeqV)
		switch f.Name() {
		case "Len":
			return IntV{s.Len}, true
		case "At":
			return IntV{smt.Select(s.Arr, args[1].(IntV).T)}, true
		case "Top":
			return IntV{smt.Select(s.Arr, smt.Sub(s.Len, smt.IntC(1)))}, true
		case "Push":
			return SeqV{Arr: smt.Store(s.Arr, s.Len, args[1].(IntV).T), Len: smt.Add(s.Len, smt.IntC(1))}, true
		case "Pop":
			return SeqV{Arr: s.Arr, Len: smt.Sub(s.Len, smt.IntC(1))}, true
		case "SetTop":
			return SeqV{Arr: smt.Store(s.Arr, smt.Sub(s.Len, smt.IntC(1)), args[1].(IntV).T), Len: s.Len}, true
		}
		panic(unsupported("Seq method " + f.Name()))
	}
	if f.Pkg != nil && strings.HasSuffix(f.Pkg.Pkg.Path(), "verif/spec") && e.pure > 0 {
		return e.callSpec(st, f, args), true
	}
	return nil, false
}

func derefType(t types.Type) types.Type {
	if p, ok := t.(*types.Pointer); ok {
		return p.Elem()
	}
	return t
}
