package symex

import (
	"regexp"
	"fmt"
	"go/ast"
	"go/constant"
	"go/printer"
	"go/token"
	"go/types"
	"sort"
	"strings"

	"golang.org/x/tools/go/packages"
	"golang.org/x/tools/go/ssa"

	"verif/internal/cexpr"
	"verif/internal/contract"
	"verif/internal/smt"
)

// Oblig is one proof obligation.
type Oblig struct {
	Name  string
	Kind  string
	Props []string
	Func  string
	Hyps  []*smt.Term
	Goal  *smt.Term
	Pos   string
	Note  string
	// Report terms: values to print from a model.
	Report map[string]*smt.Term
	Region string // name of the region contract the obligation belongs to ("" for whole-function obligations)
	Trivial bool
	pc      *pcNode
	Seq     int
}

// PCLen is the number of hypotheses.
func (o *Oblig) PCLen() int { return lenPC(o.pc) }

// HypList returns the hypotheses (path condition) of the obligation.
func (o *Oblig) HypList() []*smt.Term {
	if o.Hyps != nil {
		return o.Hyps
	}
	return o.pc.list()
}

// Extends reports whether o's path condition extends p's (p's is a prefix).
func (o *Oblig) Extends(p *Oblig) bool {
	if o.Hyps != nil || p.Hyps != nil {
		return false
	}
	x := o.pc
	pn := lenPC(p.pc)
	for lenPC(x) > pn {
		x = x.parent
	}
	return x == p.pc
}

// Suffix returns o's hypotheses beyond those of p (requires o.Extends(p)).
func (o *Oblig) Suffix(p *Oblig) []*smt.Term {
	all := o.pc.list()
	return all[lenPC(p.pc):]
}

// Engine holds the loaded program and contracts.
type Engine struct {
	normCache map[*pcNode]*normInfo
	noRewrite bool // unfold instances are not turned into rewrites (uses at function exits)
	Prog      *ssa.Program
	Pkgs      []*packages.Package
	SSAPkgs   map[string]*ssa.Package // by path
	Fset      *token.FileSet
	Contracts map[*ssa.Function]*contract.Func
	ByKey     map[string]*contract.Func // pkgpath + " " + key
	Preds     map[string]*contract.Pred // pkgpath.name and bare name
	Lemmas    []*contract.Lemma
	LemmaPkg  map[*contract.Lemma]string
	Files     []*contract.File
	Obligs    []*Oblig
	Notes     []string // assumptions / opaque callees encountered
	noteSet   map[string]bool
	constName map[string]string // string constant value -> name
	cur       *verifyCtx
	MaxPaths  int
	Paths     int
	Trace     bool
	IfaceSpec map[string]*contract.Func // "pkg.Iface.Method" -> trusted contract
	pure      int
	appendForce int
	constGlobals map[*ssa.Global]Value
	TypeInvs  map[string]*contract.Pred
	textCache map[token.Pos]string
}

type verifyCtx struct {
	fn       *ssa.Function
	fc       *contract.Func
	loops    map[*ssa.BasicBlock]*loopInfo
	ghost    map[string]Value
	nOblig   int
	props    map[string]bool
	exits    int
	unsupp   []string
	pathsCut int
	inlLoops map[*ssa.Function]map[*ssa.BasicBlock]*loopInfo
	modFields []modField
	modElems  []modElem
	modAll    bool
	callOrd   map[ssa.Instruction]int
	region    *regionInfo
	children  map[*ssa.BasicBlock]*regionInfo
	// whole-function pass of a function that also has regions: entry blocks of the parentless regions, whose
	// assumptions become obligations where the whole-function execution reaches them
	wholeEntries map[*ssa.BasicBlock]*regionInfo
}

type loopInfo struct {
	header  *ssa.BasicBlock
	body    map[*ssa.BasicBlock]bool
	ordinal int
	lc      *contract.Loop
	regionOrd int
}

// NewEngine wraps a loaded program.
func NewEngine(prog *ssa.Program, pkgs []*packages.Package) *Engine {
	e := &Engine{Prog: prog, Pkgs: pkgs, SSAPkgs: map[string]*ssa.Package{}, Contracts: map[*ssa.Function]*contract.Func{},
		ByKey: map[string]*contract.Func{}, Preds: map[string]*contract.Pred{}, noteSet: map[string]bool{}, constName: map[string]string{},
		TypeInvs: map[string]*contract.Pred{}, constGlobals: map[*ssa.Global]Value{}, textCache: map[token.Pos]string{}, MaxPaths: 60000, IfaceSpec: map[string]*contract.Func{}, LemmaPkg: map[*contract.Lemma]string{}}
	for _, p := range prog.AllPackages() {
		e.SSAPkgs[p.Pkg.Path()] = p
	}
	if len(pkgs) > 0 {
		e.Fset = pkgs[0].Fset
	}
	// names of string constants
	for _, p := range prog.AllPackages() {
		for name, m := range p.Members {
			if c, ok := m.(*ssa.NamedConst); ok && c.Value != nil && c.Value.Value != nil && c.Value.Value.Kind() == constant.String {
				v := constant.StringVal(c.Value.Value)
				if len(v) >= 16 {
					short := p.Pkg.Name() + "." + name
					if old, ok := e.constName[v]; !ok || short < old {
						e.constName[v] = short
					}
				}
			}
		}
	}
	return e
}

func (e *Engine) note(s string) {
	if !e.noteSet[s] {
		e.noteSet[s] = true
		e.Notes = append(e.Notes, s)
	}
}

// AddContracts binds a parsed contract file to SSA functions.
func (e *Engine) AddContracts(f *contract.File) error {
	e.Files = append(e.Files, f)
	for name, p := range f.Preds {
		if strings.HasPrefix(name, "typeinv_") {
			e.TypeInvs[f.Pkg+"."+strings.TrimPrefix(name, "typeinv_")] = p
			continue
		}
		e.Preds[f.Pkg+"."+name] = p
		e.Preds[name] = p
	}
	for _, l := range f.Lemmas {
		e.Lemmas = append(e.Lemmas, l)
		e.LemmaPkg[l] = f.Pkg
		// a lemma is usable as a predicate over its parameters (instances are assumed via "use")
		p := &contract.Pred{Name: l.Name, Body: l.Expr, Pkg: f.Pkg}
		for _, prm := range l.Params {
			p.Params = append(p.Params, strings.Fields(prm)[0])
		}
		e.Preds[f.Pkg+"."+l.Name] = p
		e.Preds[l.Name] = p
	}
	for _, sw := range f.Sweeps {
		re, err := regexp.Compile(sw.Pattern)
		if err != nil {
			return fmt.Errorf("%s: bad sweep pattern %q: %v", f.Path, sw.Pattern, err)
		}
		p := e.SSAPkgs[f.Pkg]
		if p == nil {
			continue
		}
		explicit := map[string]bool{}
		for _, fc := range f.Funcs {
			explicit[fc.Key] = true
		}
		var fns []*ssa.Function
		for _, m := range p.Members {
			switch x := m.(type) {
			case *ssa.Function:
				fns = append(fns, x)
			case *ssa.Type:
				for _, t := range []types.Type{x.Type(), types.NewPointer(x.Type())} {
					ms := e.Prog.MethodSets.MethodSet(t)
					for i := 0; i < ms.Len(); i++ {
						if fn := e.Prog.MethodValue(ms.At(i)); fn != nil && fn.Pkg == p && fn.Synthetic == "" {
							fns = append(fns, fn)
						}
					}
				}
			}
		}
		sort.Slice(fns, func(i, j int) bool { return fns[i].Pos() < fns[j].Pos() })
		seen := map[*ssa.Function]bool{}
		for _, fn := range fns {
			key := FuncKey(fn)
			if seen[fn] || explicit[key] || fn.Blocks == nil || !re.MatchString(key) || fn.Name() == "init" {
				continue
			}
			seen[fn] = true
			fc := &contract.Func{Key: key, Pkg: f.Pkg, Unit: sw.Unit, Loops: map[int]*contract.Loop{}, Opts: map[string]string{"sweep": "true", "props": strings.Join(sw.Props, " ")}, File: f.Path, Raises: sw.Raises,
				Asserts: map[string][]contract.Clause{}}
			ev, _ := cexpr.Parse("everything")
			fc.Modifies = []*cexpr.Node{ev}
			fc.Requires = append(fc.Requires, sw.Requires...)
			fc.Ensures = append(fc.Ensures, sw.Ensures...)
			f.Funcs = append(f.Funcs, fc)
		}
	}
	for _, fc := range f.Funcs {
		if strings.HasPrefix(fc.Key, "iface ") {
			e.IfaceSpec[strings.TrimPrefix(fc.Key, "iface ")] = fc
			continue
		}
		pkgPath := f.Pkg
		key := fc.Key
		// allow "pkgpath:key" to address another package (axioms file)
		if i := strings.Index(key, ":"); i >= 0 {
			pkgPath, key = key[:i], key[i+1:]
			fc.Key = key
			fc.Pkg = pkgPath
		}
		fn := e.LookupFunc(pkgPath, key)
		if fn == nil && fc.Trusted && e.SSAPkgs[pkgPath] == nil {
			continue // assumed contract of a package that is not loaded in this run
		}
		if fn == nil {
			return fmt.Errorf("%s:%d: contract for unknown function %q in %s", fc.File, fc.Line, key, pkgPath)
		}
		e.Contracts[fn] = fc
		e.ByKey[pkgPath+" "+key] = fc
	}
	return nil
}

// LookupFunc finds a function by key "Name" or "(*T).Name" or "(T).Name".
func (e *Engine) LookupFunc(pkgPath, key string) *ssa.Function {
	p := e.SSAPkgs[pkgPath]
	if p == nil {
		return nil
	}
	if strings.HasPrefix(key, "(") {
		i := strings.Index(key, ").")
		if i < 0 {
			return nil
		}
		recv := key[1:i]
		name := key[i+2:]
		ptr := strings.HasPrefix(recv, "*")
		recv = strings.TrimPrefix(recv, "*")
		m, ok := p.Members[recv].(*ssa.Type)
		if !ok {
			return nil
		}
		var t types.Type = m.Type()
		if ptr {
			t = types.NewPointer(t)
		}
		sel := e.Prog.MethodSets.MethodSet(t).Lookup(p.Pkg, name)
		if sel == nil {
			return nil
		}
		return e.Prog.MethodValue(sel)
	}
	if fn, ok := p.Members[key].(*ssa.Function); ok {
		return fn
	}
	return nil
}

// FuncKey renders the contract key of a function.
func FuncKey(fn *ssa.Function) string {
	if fn.Signature.Recv() != nil {
		rt := fn.Signature.Recv().Type()
		ptr := ""
		if p, ok := rt.(*types.Pointer); ok {
			ptr = "*"
			rt = p.Elem()
		}
		if n, ok := rt.(*types.Named); ok {
			return "(" + ptr + n.Obj().Name() + ")." + fn.Name()
		}
	}
	return fn.Name()
}

func funcDisplay(fn *ssa.Function) string {
	pkg := ""
	if fn.Pkg != nil {
		pkg = fn.Pkg.Pkg.Name() + "."
	}
	return pkg + FuncKey(fn)
}

// strConst returns the StrV for a Go string constant.
func (e *Engine) strConst(v string) StrV {
	name, ok := e.constName[v]
	if !ok {
		name = fmt.Sprintf("lit_%x", hashStr(v))
		if len(v) <= 24 {
			name = "lit_" + smt.Mangle(v) + fmt.Sprintf("_%x", hashStr(v)&0xffff)
		}
	}
	tbl := "tbl_" + smt.Mangle(name)
	vals := make([]int64, len(v))
	for i := 0; i < len(v); i++ {
		vals[i] = int64(v[i])
	}
	smt.DefineTable(tbl, vals, 0)
	arrName := "K_" + smt.Mangle(name)
	arr := smt.Var(arrName, smt.IArr)
	constArrs[arr] = tbl
	smt.DistinctConsts[arr] = v
	return StrV{Arr: arr, Off: smt.IntC(0), Len: smt.IntC(int64(len(v)))}
}

// constArrs maps constant array vars to their table function.
var constArrs = map[*smt.Term]string{}

func hashStr(s string) uint32 {
	h := uint32(2166136261)
	for i := 0; i < len(s); i++ {
		h ^= uint32(s[i])
		h *= 16777619
	}
	return h
}

// strIndex reads byte i of string s.
func strIndex(s StrV, i *smt.Term) *smt.Term {
	return arrRead(s.Arr, smt.Add(s.Off, i))
}

// arrRead reads an IArr, resolving constant tables.
func arrRead(arr, i *smt.Term) *smt.Term {
	if tbl, ok := constArrs[arr]; ok {
		return smt.App(tbl, smt.Int, i)
	}
	if arr.Op == "ite" {
		return smt.Ite(arr.Args[0], arrRead(arr.Args[1], i), arrRead(arr.Args[2], i))
	}
	return smt.Select(arr, i)
}

// constAxioms returns the defining axioms of constant arrays that are read
// through an unresolved select in ts (other uses need only identity, which the
// simplifier decides).
func constAxioms(ts []*smt.Term) []*smt.Term {
	need := map[*smt.Term]bool{}
	seen := map[*smt.Term]bool{}
	var walk func(t *smt.Term)
	walk = func(t *smt.Term) {
		if seen[t] {
			return
		}
		seen[t] = true
		if t.Op == "select" {
			if _, ok := constArrs[t.Args[0]]; ok {
				need[t.Args[0]] = true
			}
		}
		if t.Op == "=" && t.Args[0].S == smt.IArr {
			// equality with a symbolic array: contents may matter
			for _, a := range t.Args {
				if _, ok := constArrs[a]; ok {
					need[a] = true
				}
			}
		}
		for _, a := range t.Args {
			walk(a)
		}
	}
	for _, t := range ts {
		walk(t)
	}
	var out []*smt.Term
	var ks []*smt.Term
	for k := range need {
		ks = append(ks, k)
	}
	sort.Slice(ks, func(i, j int) bool { return ks[i].Name < ks[j].Name })
	for _, v := range ks {
		tbl := constArrs[v]
		i := smt.Var("i!ax", smt.Int)
		sel := smt.Select(v, i)
		out = append(out, smt.Forall([]*smt.Term{i}, smt.Eq(sel, smt.App(tbl, smt.Int, i)), sel))
	}
	return out
}

// ---------------------------------------------------------------------------
// Source text helpers for path labels.

func (e *Engine) exprText(pos token.Pos) string {
	if !pos.IsValid() || e.Fset == nil {
		return ""
	}
	if t, ok := e.textCache[pos]; ok {
		return t
	}
	res := ""
	for _, p := range e.Pkgs {
		for _, f := range p.Syntax {
			if f.Pos() <= pos && pos < f.End() {
				var best ast.Node
				anchored := false
				ast.Inspect(f, func(n ast.Node) bool {
					if n == nil {
						return false
					}
					if n.Pos() > pos || n.End() <= pos {
						return false
					}
					var anchor token.Pos
					switch x := n.(type) {
					case *ast.BinaryExpr:
						anchor = x.OpPos
					case *ast.CallExpr:
						anchor = x.Lparen
					case *ast.IndexExpr:
						anchor = x.Lbrack
					case *ast.SliceExpr:
						anchor = x.Lbrack
					case *ast.UnaryExpr:
						anchor = x.OpPos
					case *ast.StarExpr:
						anchor = x.Star
					case *ast.TypeAssertExpr:
						anchor = x.Lparen
					case *ast.SelectorExpr:
						anchor = x.Sel.Pos()
					case *ast.IncDecStmt:
						anchor = x.TokPos
					case *ast.AssignStmt:
						anchor = x.TokPos
					}
					if anchor == pos && !anchored {
						best = n
						anchored = true
					} else if !anchored {
						if x, ok := n.(ast.Expr); ok && x.Pos() == pos {
							if best == nil || x.End() > best.End() {
								best = x
							}
						}
					}
					return true
				})
				if best != nil {
					var sb strings.Builder
					_ = printer.Fprint(&sb, e.Fset, best)
					s := strings.Join(strings.Fields(sb.String()), "")
					if len(s) > 40 {
						s = s[:40] + "~"
					}
					res = s
				}
			}
		}
	}
	e.textCache[pos] = res
	return res
}

func (e *Engine) posString(pos token.Pos) string {
	if !pos.IsValid() || e.Fset == nil {
		return ""
	}
	p := e.Fset.Position(pos)
	f := p.Filename
	if i := strings.Index(f, "/repo/"); i >= 0 {
		f = f[i+6:]
	}
	return fmt.Sprintf("%s:%d", f, p.Line)
}

// condPos finds a usable source position for a branch condition.
func condPos(v ssa.Value) token.Pos {
	switch x := v.(type) {
	case *ssa.BinOp:
		if x.Pos().IsValid() {
			return x.Pos()
		}
		if p := condPos(x.X); p.IsValid() {
			return p
		}
		return condPos(x.Y)
	case *ssa.UnOp:
		if x.Pos().IsValid() {
			return x.Pos()
		}
		return condPos(x.X)
	case *ssa.Call:
		return x.Pos()
	case *ssa.Phi:
		return x.Pos()
	case *ssa.Extract:
		return condPos(x.Tuple)
	case *ssa.TypeAssert:
		return x.Pos()
	case *ssa.Lookup:
		return x.Pos()
	}
	return token.NoPos
}

// ---------------------------------------------------------------------------
// Loop discovery.

func findLoops(fn *ssa.Function) map[*ssa.BasicBlock]*loopInfo {
	loops := map[*ssa.BasicBlock]*loopInfo{}
	for _, b := range fn.Blocks {
		for _, s := range b.Succs {
			if s.Dominates(b) { // back edge b -> s
				li := loops[s]
				if li == nil {
					li = &loopInfo{header: s, body: map[*ssa.BasicBlock]bool{s: true}}
					loops[s] = li
				}
				// collect natural loop body
				stack := []*ssa.BasicBlock{b}
				for len(stack) > 0 {
					x := stack[len(stack)-1]
					stack = stack[:len(stack)-1]
					if li.body[x] {
						continue
					}
					li.body[x] = true
					stack = append(stack, x.Preds...)
				}
			}
		}
	}
	var hs []*ssa.BasicBlock
	for h := range loops {
		hs = append(hs, h)
	}
	sort.Slice(hs, func(i, j int) bool { return loopPos(hs[i]) < loopPos(hs[j]) })
	for i, h := range hs {
		loops[h].ordinal = i
	}
	return loops
}

// loopPos orders loop headers by source order: block index works because the
// builder creates loop blocks when it meets the statement.
func loopPos(b *ssa.BasicBlock) int {
	// for "for" loops the body block is created first; use the smallest index
	// among header and its in-loop successor to stay monotone with source order.
	return b.Index
}
