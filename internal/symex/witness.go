package symex

import (
	"fmt"
	"math/big"
	"sort"
	"strings"
	"time"

	"verif/internal/smt"
	"verif/internal/solve"
)

// WVal is the model value of one witness term of a failing obligation.
type WVal struct {
	Kind string // "int", "bool", "any"
	Int  string // decimal (int), also the payload of an any_int
	Bool bool
	// interface values: constructor (any_nil, any_int, any_bool, any_str, any_f64, any_slice, any_ref) and the Go type
	Ctor   string
	GoType string
	Raw    string
}

// Witness re-solves a failing obligation and returns the model values of its report terms (the named entry values of
// the region or loop the obligation belongs to). small adds the hypothesis that every integer witness lies within
// [-bound, bound] (so that the model can be replayed on the real code); it returns ok == false if the solver does not
// answer sat.
func Witness(o *Oblig, bound int64, timeout time.Duration, block []map[string]WVal) (map[string]WVal, string, bool) {
	if len(o.Report) == 0 {
		return nil, "", false
	}
	var names []string
	for n := range o.Report {
		names = append(names, n)
	}
	sort.Strings(names)
	hyps := append([]*smt.Term(nil), o.HypList()...)
	var rep []*smt.Term
	for _, n := range names {
		t := o.Report[n]
		w := smt.Var("w!"+n, t.S)
		hyps = append(hyps, smt.Eq(w, t))
		rep = append(rep, w)
		if bound > 0 && t.S == smt.Int {
			hyps = append(hyps, smt.Le(smt.IntC(-bound), w), smt.Le(w, smt.IntC(bound)))
		}
	}
	// earlier models that did not fail on the real code are excluded (their integer witnesses taken together)
	for _, b := range block {
		var eqs []*smt.Term
		for _, n := range names {
			if v, ok := b[n]; ok && v.Kind == "int" && o.Report[n].S == smt.Int {
				bi, ok2 := new(big.Int).SetString(v.Int, 10)
				if ok2 {
					eqs = append(eqs, smt.Eq(smt.Var("w!"+n, smt.Int), smt.BigC(bi)))
				}
			}
		}
		if len(eqs) > 0 {
			hyps = append(hyps, smt.Not(smt.And(eqs...)))
		}
	}
	all := append([]*smt.Term(nil), hyps...)
	if o.Goal != nil {
		all = append(all, o.Goal)
	}
	hyps = append(constAxioms(all), hyps...)
	q := &smt.Query{Hyps: hyps, Goal: o.Goal, Report: rep}
	script := q.Script(true)
	r := solve.Run(solve.Solvers[0], script, timeout)
	if r.Answer != "sat" {
		return nil, r.Output, false
	}
	out := r.Output
	if i := strings.Index(out, "\n"); i >= 0 {
		out = out[i+1:]
	}
	sx, _ := parseSexp(out, 0)
	vals := map[string]WVal{}
	for _, pair := range sx.list {
		if len(pair.list) != 2 || !strings.HasPrefix(pair.list[0].atom, "w!") {
			continue
		}
		name := strings.TrimPrefix(pair.list[0].atom, "w!")
		name = strings.Trim(name, "|")
		v := pair.list[1]
		t := o.Report[name]
		if t == nil {
			continue
		}
		switch t.S {
		case smt.Int:
			vals[name] = WVal{Kind: "int", Int: sexpInt(v), Raw: v.String()}
		case smt.Bool:
			vals[name] = WVal{Kind: "bool", Bool: v.atom == "true", Raw: v.String()}
		case smt.Any:
			w := WVal{Kind: "any", Raw: v.String()}
			if v.atom != "" {
				w.Ctor = v.atom
			} else if len(v.list) > 0 {
				w.Ctor = v.list[0].atom
				if len(v.list) > 1 {
					var id int64
					fmt.Sscan(sexpInt(v.list[1]), &id)
					if gt, ok := typeByID[id]; ok {
						w.GoType = gt.String()
					}
				}
				if w.Ctor == "any_int" && len(v.list) > 2 {
					w.Int = sexpInt(v.list[2])
				}
				if w.Ctor == "any_bool" && len(v.list) > 2 {
					w.Bool = v.list[2].atom == "true"
				}
			}
			vals[name] = w
		}
	}
	return vals, r.Output, true
}

type sexp struct {
	atom string
	list []*sexp
}

func (s *sexp) String() string {
	if s == nil {
		return ""
	}
	if s.list == nil && s.atom != "" {
		return s.atom
	}
	var parts []string
	for _, x := range s.list {
		parts = append(parts, x.String())
	}
	return "(" + strings.Join(parts, " ") + ")"
}

func sexpInt(s *sexp) string {
	if s.atom != "" {
		return s.atom
	}
	if len(s.list) == 2 && s.list[0].atom == "-" {
		return "-" + sexpInt(s.list[1])
	}
	return "0"
}

func parseSexp(s string, i int) (*sexp, int) {
	for i < len(s) && (s[i] == ' ' || s[i] == '\n' || s[i] == '\t' || s[i] == '\r') {
		i++
	}
	if i >= len(s) {
		return &sexp{}, i
	}
	if s[i] == '(' {
		i++
		n := &sexp{list: []*sexp{}}
		for {
			for i < len(s) && (s[i] == ' ' || s[i] == '\n' || s[i] == '\t' || s[i] == '\r') {
				i++
			}
			if i >= len(s) {
				return n, i
			}
			if s[i] == ')' {
				return n, i + 1
			}
			var c *sexp
			c, i = parseSexp(s, i)
			n.list = append(n.list, c)
		}
	}
	j := i
	if s[i] == '|' {
		j = i + 1
		for j < len(s) && s[j] != '|' {
			j++
		}
		j++
	} else {
		for j < len(s) && s[j] != ' ' && s[j] != '\n' && s[j] != ')' && s[j] != '(' {
			j++
		}
	}
	return &sexp{atom: s[i:j]}, j
}
