package symex

import (
	"fmt"
	"sort"

	"verif/internal/smt"
)

// ObligScript renders the SMT-LIB script of an obligation.
func ObligScript(o *Oblig, models bool) string {
	return GroupScript([]*Oblig{o}, models)
}

// GroupScript renders one query for a chain of obligations whose path
// conditions extend one another: hyps(first) and not AND_j (suffix_j => goal_j).
// groupGoal is the conjunction of the goals of a chain of obligations, each under the part of its path condition that
// extends the first one's.
func groupGoal(os []*Oblig) *smt.Term {
	first := os[0]
	var goals []*smt.Term
	for i, o := range os {
		if o.Goal == nil {
			continue
		}
		if i == 0 {
			goals = append(goals, o.Goal)
		} else {
			goals = append(goals, smt.Implies(smt.And(o.Suffix(first)...), o.Goal))
		}
	}
	if len(goals) == 0 {
		return nil
	}
	return smt.And(goals...)
}

// GroupKey is the structural cache key of the query GroupScript would print (the constant-table axioms are a function of
// the hypotheses and the goal, so they need not be part of the key).
func GroupKey(os []*Oblig) string {
	return QueryKey(os[0].HypList(), groupGoal(os))
}

func GroupScript(os []*Oblig, models bool) string {
	first := os[0]
	hyps := append([]*smt.Term(nil), first.HypList()...)
	goal := groupGoal(os)
	all := append([]*smt.Term(nil), hyps...)
	if goal != nil {
		all = append(all, goal)
	}
	hyps = append(constAxioms(all), hyps...)
	q := &smt.Query{Hyps: hyps, Goal: goal}
	return q.Script(models)
}

// MergeSameGoal folds obligations that have the identical goal term (paths
// that reach the same program point with the same symbolic state, differing
// only in branch conditions that do not matter) into one obligation whose
// hypotheses are the common prefix of the path conditions plus the disjunction
// of the differing suffixes. Sound and complete: (A1 => G) and (A2 => G) iff (A1 or A2) => G.
func MergeSameGoal(obligs []*Oblig) []*Oblig {
	type key struct {
		goal *smt.Term
		kind string
		fn   string
	}
	groups := map[key][]*Oblig{}
	var order []key
	for _, o := range obligs {
		if o.Goal == nil || o.Trivial || o.Hyps != nil || o.pc == nil {
			continue
		}
		k := key{o.Goal, o.Kind, o.Func}
		if _, ok := groups[k]; !ok {
			order = append(order, k)
		}
		groups[k] = append(groups[k], o)
	}
	drop := map[*Oblig]bool{}
	repl := map[*Oblig]*Oblig{}
	for _, k := range order {
		g := groups[k]
		if len(g) < 2 {
			continue
		}
		// lowest common ancestor of the path conditions
		lca := g[0].pc
		for _, o := range g[1:] {
			a, b := lca, o.pc
			for lenPC(a) > lenPC(b) {
				a = a.parent
			}
			for lenPC(b) > lenPC(a) {
				b = b.parent
			}
			for a != b {
				a, b = a.parent, b.parent
			}
			lca = a
		}
		base := lenPC(lca)
		var alts []*smt.Term
		tooLong := false
		for _, o := range g {
			suf := o.pc.list()[base:]
			if len(suf) > 400 {
				tooLong = true
				break
			}
			alts = append(alts, smt.And(suf...))
		}
		if tooLong {
			continue
		}
		m := *g[0]
		m.pc = nil
		m.Hyps = append(lca.list(), smt.Or(alts...))
		m.Name = g[0].Name + fmt.Sprintf(" (+%d paths with the same goal)", len(g)-1)
		propSet := map[string]bool{}
		for _, o := range g {
			for _, p := range o.Props {
				propSet[p] = true
			}
		}
		m.Props = nil
		for p := range propSet {
			m.Props = append(m.Props, p)
		}
		sort.Strings(m.Props)
		repl[g[0]] = &m
		for _, o := range g[1:] {
			drop[o] = true
		}
	}
	var out []*Oblig
	for _, o := range obligs {
		if drop[o] {
			continue
		}
		if r, ok := repl[o]; ok {
			out = append(out, r)
			continue
		}
		out = append(out, o)
	}
	return out
}
