package symex

import (
	"verif/internal/smt"
)

// ObligScript renders the SMT-LIB script of an obligation.
func ObligScript(o *Oblig, models bool) string {
	hyps := append([]*smt.Term(nil), o.Hyps...)
	all := append([]*smt.Term(nil), hyps...)
	if o.Goal != nil {
		all = append(all, o.Goal)
	}
	hyps = append(constAxioms(all), hyps...)
	q := &smt.Query{Hyps: hyps, Goal: o.Goal}
	return q.Script(models)
}
