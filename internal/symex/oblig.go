package symex

import (
	"verif/internal/smt"
)

// ObligScript renders the SMT-LIB script of an obligation.
func ObligScript(o *Oblig, models bool) string {
	return GroupScript([]*Oblig{o}, models)
}

// GroupScript renders one query for a chain of obligations whose path
// conditions extend one another: hyps(first) and not AND_j (suffix_j => goal_j).
func GroupScript(os []*Oblig, models bool) string {
	first := os[0]
	hyps := append([]*smt.Term(nil), first.HypList()...)
	var goals []*smt.Term
	for i, o := range os {
		if o.Goal == nil {
			continue
		}
		if i == 0 {
			goals = append(goals, o.Goal)
		} else {
			goals = append(goals, smt.Implies(smt.And(o.Suffix(first)...), o.Goal))
		}
	}
	var goal *smt.Term
	if len(goals) > 0 {
		goal = smt.And(goals...)
	}
	all := append([]*smt.Term(nil), hyps...)
	if goal != nil {
		all = append(all, goal)
	}
	hyps = append(constAxioms(all), hyps...)
	q := &smt.Query{Hyps: hyps, Goal: goal}
	return q.Script(models)
}
