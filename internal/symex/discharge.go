package symex

import (
	"fmt"
	"strings"
	"sync"
	"time"

	"verif/internal/smt"
	"verif/internal/solve"
)

// Result is the outcome of one obligation.
type Result struct {
	O       *Oblig
	Status  string // unsat (discharged), sat, undecided, disagree
	By      string
	Secs    float64
	Output  string // solver output for failures
	Script  string // script of the individual query (failures only)
	Grouped bool
	Diag    string
}

// DischargeOpts controls the solver run.
type DischargeOpts struct {
	Timeout  time.Duration
	Jobs     int
	All      bool // run all solvers to completion
	MaxGroup int
	KeepScripts bool
	Diagnose bool // on failure, locate the failing conjuncts and look for a candidate model
}

// Discharge proves the obligations, grouping chains that share a path prefix
// into one query and falling back to individual queries when a group fails.
func Discharge(obligs []*Oblig, opt DischargeOpts) []Result {
	if opt.MaxGroup == 0 {
		opt.MaxGroup = 24
	}
	if opt.Jobs == 0 {
		opt.Jobs = 16
	}
	res := make([]Result, len(obligs))
	var groups [][]int
	var cur []int
	for i, o := range obligs {
		res[i].O = o
		if o.Trivial {
			res[i].Status = "unsat"
			res[i].By = "simplifier"
			continue
		}
		if len(cur) > 0 && len(cur) < opt.MaxGroup && o.Extends(obligs[cur[0]]) && o.Extends(obligs[cur[len(cur)-1]]) {
			cur = append(cur, i)
			continue
		}
		if len(cur) > 0 {
			groups = append(groups, cur)
		}
		cur = []int{i}
	}
	if len(cur) > 0 {
		groups = append(groups, cur)
	}
	var wg sync.WaitGroup
	sem := make(chan struct{}, opt.Jobs)
	var mu sync.Mutex
	var smu sync.Mutex
	mkScript := func(os []*Oblig, models bool) string {
		smu.Lock()
		defer smu.Unlock()
		return GroupScript(os, models)
	}
	single := func(i int) {
		script := mkScript([]*Oblig{obligs[i]}, true)
		v := solve.Decide(script, opt.Timeout, opt.All)
		extra := ""
		if v.Status != "unsat" && opt.Diagnose {
			extra = diagnose(obligs[i], &smu)
		}
		mu.Lock()
		res[i].Status, res[i].By, res[i].Secs = v.Status, v.By, v.Secs
		if v.Status != "unsat" || opt.KeepScripts {
			res[i].Script = script
			for _, r := range v.Results {
				res[i].Output += "== " + r.Solver + ": " + r.Answer + "\n" + r.Output + "\n"
			}
			res[i].Output += extra
			res[i].Diag = extra
		}
		mu.Unlock()
	}
	for _, g := range groups {
		g := g
		wg.Add(1)
		sem <- struct{}{}
		go func() {
			defer wg.Done()
			defer func() { <-sem }()
			if len(g) == 1 {
				single(g[0])
				return
			}
			os := make([]*Oblig, len(g))
			for k, i := range g {
				os[k] = obligs[i]
			}
			script := mkScript(os, false)
			// groups get one short attempt; a group that is not proved at once is split
			gt := 3 * time.Second
			if opt.Timeout < gt {
				gt = opt.Timeout
			}
			r := solve.Run(solve.Solvers[0], script, gt)
			v := solve.Verdict{Status: r.Answer, By: r.Solver, Secs: r.Secs}
			if v.Status == "unsat" && !opt.All {
				mu.Lock()
				for _, i := range g {
					res[i].Status, res[i].By, res[i].Secs, res[i].Grouped = "unsat", v.By, v.Secs/float64(len(g)), true
				}
				mu.Unlock()
				return
			}
			for _, i := range g {
				single(i)
			}
		}()
	}
	wg.Wait()
	return res
}

// diagnose splits a failed goal into its conjuncts and reports which of them
// fail; it also tries the query without quantified hypotheses to obtain a
// candidate counterexample (a candidate only: it must replay on the real code).
func diagnose(o *Oblig, smu *sync.Mutex) string {
	if o.Goal == nil {
		return ""
	}
	var out strings.Builder
	conj := []*smt.Term{o.Goal}
	if o.Goal.Op == "and" {
		conj = o.Goal.Args
	}
	hyps := o.HypList()
	var weak []*smt.Term
	for _, h := range hyps {
		if !hasQuant(h) {
			weak = append(weak, h)
		}
	}
	for k, c := range conj {
		smu.Lock()
		all := append(append([]*smt.Term(nil), hyps...), c)
		q := &smt.Query{Hyps: append(constAxioms(all), hyps...), Goal: c}
		script := q.Script(false)
		smu.Unlock()
		v := solve.Decide(script, 6*time.Second, false)
		if v.Status == "unsat" {
			continue
		}
		txt := c.String()
		if len(txt) > 300 {
			txt = txt[:300] + "..."
		}
		fmt.Fprintf(&out, "-- conjunct %d/%d %s: %s\n", k+1, len(conj), v.Status, txt)
		// candidate model without quantified hypotheses
		smu.Lock()
		q2 := &smt.Query{Hyps: weak, Goal: c}
		s2 := q2.Script(true)
		smu.Unlock()
		r := solve.Run(solve.Solvers[0], s2, 6*time.Second)
		if r.Answer == "sat" {
			m := r.Output
			if len(m) > 3000 {
				m = m[:3000] + "..."
			}
			fmt.Fprintf(&out, "   candidate model (quantified hypotheses dropped): %s\n", strings.ReplaceAll(m, "\n", " "))
		}
	}
	return out.String()
}

func hasQuant(t *smt.Term) bool {
	return hasQuantM(t, map[*smt.Term]bool{})
}

func hasQuantM(t *smt.Term, memo map[*smt.Term]bool) bool {
	if v, ok := memo[t]; ok {
		return v
	}
	r := t.Op == "forall" || t.Op == "exists"
	if !r {
		for _, a := range t.Args {
			if hasQuantM(a, memo) {
				r = true
				break
			}
		}
	}
	memo[t] = r
	return r
}
