package symex

import (
	"fmt"
	"strings"
	"sync"
	"time"

	"verif/internal/smt"
	"verif/internal/solve"
)

// Result is the outcome of one obligation.
type Result struct {
	O       *Oblig
	Status  string // unsat (discharged), sat, undecided, disagree
	By      string
	Secs    float64
	Output  string // solver output for failures
	Script  string // script of the individual query (failures only)
	Grouped bool
	Diag    string
}

// DischargeOpts controls the solver run.
type DischargeOpts struct {
	Timeout  time.Duration
	Jobs     int
	All      bool // run all solvers to completion
	MaxGroup int
	KeepScripts bool
	Diagnose bool // on failure, locate the failing conjuncts and look for a candidate model
	NoRetry  bool // skip the straggler pass
}

// Discharge proves the obligations, grouping chains that share a path prefix
// into one query and falling back to individual queries when a group fails.
func Discharge(obligs []*Oblig, opt DischargeOpts) []Result {
	if opt.MaxGroup == 0 {
		opt.MaxGroup = 24
	}
	if opt.Jobs == 0 {
		opt.Jobs = 16
	}
	res := make([]Result, len(obligs))
	var groups [][]int
	var cur []int
	for i, o := range obligs {
		res[i].O = o
		if o.Trivial {
			res[i].Status = "unsat"
			res[i].By = "simplifier"
			continue
		}
		if len(cur) > 0 && len(cur) < opt.MaxGroup && o.Extends(obligs[cur[0]]) && o.Extends(obligs[cur[len(cur)-1]]) {
			cur = append(cur, i)
			continue
		}
		if len(cur) > 0 {
			groups = append(groups, cur)
		}
		cur = []int{i}
	}
	if len(cur) > 0 {
		groups = append(groups, cur)
	}
	var wg sync.WaitGroup
	sem := make(chan struct{}, opt.Jobs)
	var mu sync.Mutex
	var smu sync.Mutex
	mkScript := func(os []*Oblig, models bool) string {
		smu.Lock()
		defer smu.Unlock()
		return GroupScript(os, models)
	}
	mkKey := func(os []*Oblig) string {
		smu.Lock()
		defer smu.Unlock()
		return GroupKey(os)
	}
	// weak: the same goal with the quantified hypotheses dropped (fewer hypotheses: unsat still proves the obligation)
	weakScript := func(o *Oblig) string {
		smu.Lock()
		defer smu.Unlock()
		var hyps []*smt.Term
		memo := map[*smt.Term]bool{}
		dropped := false
		for _, h := range o.HypList() {
			if hasQuantM(h, memo) {
				dropped = true
				continue
			}
			hyps = append(hyps, h)
		}
		if !dropped || o.Goal == nil {
			return ""
		}
		all := append(append([]*smt.Term(nil), hyps...), o.Goal)
		q := &smt.Query{Hyps: append(constAxioms(all), hyps...), Goal: o.Goal}
		return q.Script(false)
	}
	single := func(i int) {
		key := ""
		if !opt.All && Cache != nil {
			key = mkKey([]*Oblig{obligs[i]})
			hit := Cache.ProvedKey(key)
			if !hit {
				if cs := mkScript([]*Oblig{obligs[i]}, true); Cache.Proved(cs) {
					hit = true
					Cache.AddKey(key)
				}
			}
			if hit {
				mu.Lock()
				res[i].Status, res[i].By = "unsat", "cache"
				mu.Unlock()
				return
			}
		}
		defer func() {
			// whatever route proved it, remember the structural key too
			mu.Lock()
			ok := res[i].Status == "unsat"
			mu.Unlock()
			if ok && key != "" {
				Cache.AddKey(key)
			}
		}()
		if ws := weakScript(obligs[i]); ws != "" && !opt.All {
			r := solve.Run(solve.Solvers[0], ws, 2*time.Second)
			if r.Answer == "unsat" {
				mu.Lock()
				res[i].Status, res[i].By, res[i].Secs = "unsat", r.Solver+"+qf-hyps", r.Secs
				mu.Unlock()
				Cache.Add(mkScript([]*Oblig{obligs[i]}, true))
				return
			}
		}
		script := mkScript([]*Oblig{obligs[i]}, true)
		v := solve.Decide(script, opt.Timeout, opt.All)
		if v.Status == "undecided" && obligs[i].Goal != nil && obligs[i].Goal.Op == "and" && len(obligs[i].Goal.Args) > 1 {
			// a conjunction that is too hard as a whole: prove the quantifier-free part as one goal and every
			// quantified conjunct on its own (sound: every part must be unsat)
			var qf []*smt.Term
			var parts []*smt.Term
			for _, c := range obligs[i].Goal.Args {
				if hasQuant(c) {
					parts = append(parts, c)
				} else {
					qf = append(qf, c)
				}
			}
			if len(qf) > 0 {
				smu.Lock() // term construction is not thread safe
				qfAll := smt.And(qf...)
				smu.Unlock()
				parts = append([]*smt.Term{qfAll}, parts...)
			}
			if len(parts) > 1 {
				all := true
				var secs float64
				by := ""
				hyps := obligs[i].HypList()
				for _, c := range parts {
					smu.Lock()
					full := append(append([]*smt.Term(nil), hyps...), c)
					q := &smt.Query{Hyps: append(constAxioms(full), hyps...), Goal: c}
					cs := q.Script(false)
					smu.Unlock()
					cv := solve.Decide(cs, opt.Timeout, opt.All)
					secs += cv.Secs
					if cv.Status != "unsat" {
						all = false
						break
					}
					by = cv.By
				}
				if all {
					v = solve.Verdict{Status: "unsat", By: by + "+split", Secs: v.Secs + secs}
				}
			}
		}
		if v.Status == "unsat" {
			Cache.Add(script)
		}
		extra := ""
		if v.Status != "unsat" && opt.Diagnose {
			extra = diagnose(obligs[i], &smu)
		}
		mu.Lock()
		res[i].Status, res[i].By, res[i].Secs = v.Status, v.By, v.Secs
		if v.Status != "unsat" || opt.KeepScripts {
			res[i].Script = script
			for _, r := range v.Results {
				res[i].Output += "== " + r.Solver + ": " + r.Answer + "\n" + r.Output + "\n"
			}
			res[i].Output += extra
			res[i].Diag = extra
		}
		mu.Unlock()
	}
	for _, g := range groups {
		g := g
		wg.Add(1)
		sem <- struct{}{}
		go func() {
			defer wg.Done()
			defer func() { <-sem }()
			if len(g) == 1 {
				single(g[0])
				return
			}
			os := make([]*Oblig, len(g))
			for k, i := range g {
				os[k] = obligs[i]
			}
			gkey := ""
			// a proved group proves each member under its own path condition (hyps_j = hyps_first + suffix_j): the members'
			// own keys are recorded too, so that another selection of obligations (another property over the same
			// function) that groups them differently is answered from the cache
			addMembers := func() {
				if opt.All || Cache == nil {
					return
				}
				for _, i := range g {
					Cache.AddKey(mkKey([]*Oblig{obligs[i]}))
				}
			}
			if !opt.All && Cache != nil {
				allKnown := true
				for _, i := range g {
					if !Cache.HasKey(mkKey([]*Oblig{obligs[i]})) {
						allKnown = false
						break
					}
				}
				if allKnown {
					Cache.CountHit()
					mu.Lock()
					for _, i := range g {
						res[i].Status, res[i].By, res[i].Grouped = "unsat", "cache", true
					}
					mu.Unlock()
					return
				}
				gkey = mkKey(os)
				if Cache.ProvedKey(scriptKey("group-not-proved-at-once:" + gkey)) {
					// this group was tried before and had to be split: go to the single obligations directly
					for _, i := range g {
						single(i)
					}
					return
				}
				if Cache.ProvedKey(gkey) {
					addMembers()
					mu.Lock()
					for _, i := range g {
						res[i].Status, res[i].By, res[i].Grouped = "unsat", "cache", true
					}
					mu.Unlock()
					return
				}
			}
			script := mkScript(os, false)
			if !opt.All && Cache.Proved(script) {
				Cache.AddKey(gkey)
				addMembers()
				mu.Lock()
				for _, i := range g {
					res[i].Status, res[i].By, res[i].Grouped = "unsat", "cache", true
				}
				mu.Unlock()
				return
			}
			// groups get one short attempt; a group that is not proved at once is split
			gt := 3 * time.Second
			if opt.Timeout < gt {
				gt = opt.Timeout
			}
			r := solve.Run(solve.Solvers[0], script, gt)
			v := solve.Verdict{Status: r.Answer, By: r.Solver, Secs: r.Secs}
			if v.Status == "unsat" && !opt.All {
				mu.Lock()
				for _, i := range g {
					res[i].Status, res[i].By, res[i].Secs, res[i].Grouped = "unsat", v.By, v.Secs/float64(len(g)), true
				}
				mu.Unlock()
				Cache.Add(script)
				if gkey != "" {
					Cache.AddKey(gkey)
				}
				addMembers()
				return
			}
			if gkey != "" {
				Cache.AddKey(scriptKey("group-not-proved-at-once:" + gkey))
			}
			for _, i := range g {
				single(i)
			}
		}()
	}
	wg.Wait()
	// stragglers: the machine is idle now; every conjunct of an undecided goal gets its own query, a longer limit and few
	// enough solver processes that each has a core (sound: every part must be unsat)
	type part struct {
		i    int
		goal *smt.Term
	}
	var parts []part
	var proved []int
	var stragglers []int
	pending := map[int]int{}
	failed := map[int]bool{}
	for i, r := range res {
		if r.Status != "undecided" || obligs[i].Goal == nil || opt.All || opt.NoRetry {
			continue
		}
		cs := []*smt.Term{obligs[i].Goal}
		if obligs[i].Goal.Op == "and" {
			cs = obligs[i].Goal.Args
		}
		stragglers = append(stragglers, i)
		for _, c := range cs {
			parts = append(parts, part{i, c})
		}
		pending[i] = len(cs)
	}
	// a path that cannot be taken needs no proof of its goals: try to refute the path condition alone first
	if len(stragglers) > 0 {
		jobs := opt.Jobs / 3
		if jobs < 1 {
			jobs = 1
		}
		sem2 := make(chan struct{}, jobs)
		dead := map[int]bool{}
		for _, i := range stragglers {
			i := i
			wg.Add(1)
			sem2 <- struct{}{}
			go func() {
				defer wg.Done()
				defer func() { <-sem2 }()
				smu.Lock()
				hyps := obligs[i].HypList()
				q := &smt.Query{Hyps: append(constAxioms(hyps), hyps...), Goal: smt.False}
				cs := q.Script(false)
				smu.Unlock()
				cv := solve.Race(cs, opt.Timeout)
				if cv.Status == "unsat" {
					mu.Lock()
					dead[i] = true
					res[i].Status, res[i].By, res[i].Secs = "unsat", cv.By+"+infeasible-path", res[i].Secs+cv.Secs
					res[i].Script, res[i].Output, res[i].Diag = "", "", ""
					proved = append(proved, i)
					mu.Unlock()
				}
			}()
		}
		wg.Wait()
		var rest []part
		for _, pt := range parts {
			if !dead[pt.i] {
				rest = append(rest, pt)
			}
		}
		parts = rest
	}
	if len(parts) > 0 {
		jobs := opt.Jobs / 3
		if jobs < 1 {
			jobs = 1
		}
		sem2 := make(chan struct{}, jobs)
		secs := map[int]float64{}
		for _, pt := range parts {
			pt := pt
			wg.Add(1)
			sem2 <- struct{}{}
			go func() {
				defer wg.Done()
				defer func() { <-sem2 }()
				mu.Lock()
				skip := failed[pt.i]
				mu.Unlock()
				if skip {
					return
				}
				smu.Lock()
				hyps := obligs[pt.i].HypList()
				full := append(append([]*smt.Term(nil), hyps...), pt.goal)
				q := &smt.Query{Hyps: append(constAxioms(full), hyps...), Goal: pt.goal}
				cs := q.Script(false)
				smu.Unlock()
				cv := solve.Race(cs, 3*opt.Timeout)
				mu.Lock()
				secs[pt.i] += cv.Secs
				if cv.Status == "unsat" {
					pending[pt.i]--
					if pending[pt.i] == 0 && !failed[pt.i] {
						res[pt.i].Status, res[pt.i].By, res[pt.i].Secs = "unsat", cv.By+"+retry-split", res[pt.i].Secs+secs[pt.i]
						res[pt.i].Script, res[pt.i].Output, res[pt.i].Diag = "", "", ""
						proved = append(proved, pt.i)
					}
				} else {
					failed[pt.i] = true
				}
				mu.Unlock()
			}()
		}
		wg.Wait()
	}
	for _, i := range proved {
		Cache.Add(mkScript([]*Oblig{obligs[i]}, true))
		if Cache != nil {
			Cache.AddKey(mkKey([]*Oblig{obligs[i]}))
		}
	}
	return res
}

// diagnose splits a failed goal into its conjuncts and reports which of them
// fail; it also tries the query without quantified hypotheses to obtain a
// candidate counterexample (a candidate only: it must replay on the real code).
func diagnose(o *Oblig, smu *sync.Mutex) string {
	if o.Goal == nil {
		return ""
	}
	var out strings.Builder
	conj := []*smt.Term{o.Goal}
	if o.Goal.Op == "and" {
		conj = o.Goal.Args
	}
	hyps := o.HypList()
	var weak []*smt.Term
	for _, h := range hyps {
		if !hasQuant(h) {
			weak = append(weak, h)
		}
	}
	for k, c := range conj {
		smu.Lock()
		all := append(append([]*smt.Term(nil), hyps...), c)
		q := &smt.Query{Hyps: append(constAxioms(all), hyps...), Goal: c}
		script := q.Script(false)
		smu.Unlock()
		v := solve.Decide(script, 6*time.Second, false)
		if v.Status == "unsat" {
			continue
		}
		txt := c.String()
		if len(txt) > 300 {
			txt = txt[:300] + "..."
		}
		fmt.Fprintf(&out, "-- conjunct %d/%d %s: %s\n", k+1, len(conj), v.Status, txt)
		// candidate model without quantified hypotheses
		smu.Lock()
		q2 := &smt.Query{Hyps: weak, Goal: c}
		s2 := q2.Script(true)
		smu.Unlock()
		r := solve.Run(solve.Solvers[0], s2, 6*time.Second)
		if r.Answer == "sat" {
			m := r.Output
			if len(m) > 3000 {
				m = m[:3000] + "..."
			}
			fmt.Fprintf(&out, "   candidate model (quantified hypotheses dropped): %s\n", strings.ReplaceAll(m, "\n", " "))
		}
	}
	return out.String()
}

func hasQuant(t *smt.Term) bool {
	return hasQuantM(t, map[*smt.Term]bool{})
}

func hasQuantM(t *smt.Term, memo map[*smt.Term]bool) bool {
	if v, ok := memo[t]; ok {
		return v
	}
	r := t.Op == "forall" || t.Op == "exists"
	if !r {
		for _, a := range t.Args {
			if hasQuantM(a, memo) {
				r = true
				break
			}
		}
	}
	memo[t] = r
	return r
}
