package symex

import (
	"crypto/sha256"
	"fmt"
	"go/types"
	"runtime/debug"
	"strings"

	"golang.org/x/tools/go/ssa"

	"verif/internal/contract"
	"verif/internal/smt"
)

// FuncReport summarises the VC generation of one function.
type FuncReport struct {
	Func      string
	Key       string
	Pkg       string
	Blocks    int
	Obligs    int
	Paths     int
	Exits     int
	Unsupp    string // non-empty if the function fell outside the subset
	Trusted   bool
	Loops     int
	Canary    *Oblig
	ReqSat    *Oblig
	SourcePos string
}

// VerifyAll generates obligations for every non-trusted contract of the given unit ("" = all).
func (e *Engine) VerifyAll(filter func(fc *contract.Func) bool) []*FuncReport {
	var reps []*FuncReport
	for _, f := range e.Files {
		for _, fc := range f.Funcs {
			if strings.HasPrefix(fc.Key, "iface ") || fc.Trusted {
				continue
			}
			if filter != nil && !filter(fc) {
				continue
			}
			fn := e.LookupFunc(fc.Pkg, fc.Key)
			if fn == nil {
				continue
			}
			reps = append(reps, e.VerifyFunc(fn, fc))
		}
	}
	return reps
}

// VerifyFunc generates the obligations of one function against its contract.
func (e *Engine) VerifyFunc(fn *ssa.Function, fc *contract.Func) (rep *FuncReport) {
	rep = &FuncReport{Func: funcDisplay(fn), Key: fc.Key, Pkg: fc.Pkg, Blocks: len(fn.Blocks), SourcePos: e.posString(fn.Pos())}
	smt.SetFreshScope(scopeTag(funcDisplay(fn)))
	ctx := &verifyCtx{fn: fn, fc: fc, loops: findLoops(fn)}
	rep.Loops = len(ctx.loops)
	for _, li := range ctx.loops {
		li.lc = fc.Loops[li.ordinal]
	}
	for ord := range fc.Loops {
		found := false
		for _, li := range ctx.loops {
			if li.ordinal == ord {
				found = true
			}
		}
		if !found {
			rep.Unsupp = fmt.Sprintf("contract names loop %d but the function has %d loops", ord, len(ctx.loops))
		}
	}
	e.cur = ctx
	e.Paths = 0 // the path limit is per function
	startPaths := e.Paths
	startObl := len(e.Obligs)
	defer func() {
		rep.Paths = e.Paths - startPaths
		rep.Obligs = len(e.Obligs) - startObl
		rep.Exits = ctx.exits
		if r := recover(); r != nil {
			msg := fmt.Sprint(r)
			if u, ok := r.(Unsupported); ok {
				msg = u.Error()
			} else {
				stk := strings.Split(string(debug.Stack()), "\n")
				if len(stk) > 14 {
					stk = stk[6:14]
				}
				msg = msg + " @ " + strings.Join(stk, " | ")
			}
			rep.Unsupp = msg
			// a function outside the subset is an undischarged obligation
			e.Obligs = append(e.Obligs, &Oblig{Name: funcDisplay(fn) + "/outside-subset", Kind: "subset", Props: allProps(fc), Func: funcDisplay(fn),
				Goal: smt.False, Hyps: nil, Note: msg})
		}
		e.cur = nil
	}()
	if rep.Unsupp != "" {
		panic(unsupported(rep.Unsupp))
	}
	if len(fc.Regions) > 0 {
		ctx.modAll = true // regions carry no frame condition
		infos := e.verifyRegions(fn, fc, rep)
		if fc.Opts["mergegoals"] != "" {
			merged := MergeSameGoal(e.Obligs[startObl:])
			e.Obligs = append(e.Obligs[:startObl], merged...)
		}
		if fc.Opts["whole"] == "" {
			return rep
		}
		// opt whole: the function also carries a whole-function contract (loops, requires/ensures, implicit safety
		// obligations); it is verified in a second pass with a fresh context
		exits := ctx.exits
		ctx = &verifyCtx{fn: fn, fc: fc, loops: findLoops(fn)}
		for _, li := range ctx.loops {
			li.lc = fc.Loops[li.ordinal]
		}
		ctx.exits = exits
		ctx.wholeEntries = map[*ssa.BasicBlock]*regionInfo{}
		for _, r := range fc.Regions {
			if ri := infos[r.Name]; ri != nil && r.Parent == "" && len(r.Assumes) > 0 {
				ctx.wholeEntries[ri.entry] = ri
			}
		}
		e.cur = ctx
	}
	st := &State{cellVals: map[*Cell]Value{}, heaps: map[string]*smt.Term{}, facts: map[*smt.Term]bool{}, globals: map[*ssa.Global]Value{}, nonnil: map[*smt.Term]bool{}}
	st.alloc = smt.Var("alloc@0", smt.Int)
	st.assume(smt.Lt(smt.IntC(0), st.alloc))
	st.fr = newFrame(fn)
	// parameters
	for _, p := range fn.Params {
		v, facts := freshValue(p.Name(), p.Type())
		// deterministic names for parameters
		v = renameParam(p.Name(), p.Type())
		facts = typeFacts(p.Type(), v)
		st.fr.regs[p] = v
		st.assumeFacts(facts)
		recordRangeDeep(p.Type(), v)
		e.assumeAllocated(st, v)
	}
	// pointer receiver is non-nil (calling a method on nil that touches a field panics at the caller's responsibility)
	if fn.Signature.Recv() != nil {
		if pv, ok := st.fr.regs[fn.Params[0]].(PtrV); ok && pv.Ref != nil {
			st.assume(smt.Lt(smt.IntC(0), pv.Ref))
			st.nonnil[pv.Ref] = true
		}
	}
	// ghosts
	for _, g := range fc.Ghosts {
		fs := strings.Fields(g)
		name := fs[0]
		typ := "int"
		if len(fs) > 1 {
			typ = fs[1]
		}
		st.fr.ghost[name] = e.ghostValue(name, typ, fn)
	}
	// mutable ghost variables
	if len(fc.GhostVars) > 0 {
		genv := e.funcEnv(st)
		for _, g := range fc.GhostVars {
			st.fr.ghost[g.Name] = e.eval(genv, g.Expr)
			genv.vars[g.Name] = st.fr.ghost[g.Name]
		}
	}
	// read-only slices
	for _, r := range fc.Readonly {
		for _, p := range fn.Params {
			if p.Name() == r {
				if s, ok := st.fr.regs[p].(SliceV); ok {
					st.ro = append(st.ro, roArr{elemKey: typeKey(s.Elem), arr: s.Arr})
				}
			}
		}
	}
	// stream option: buf[j] == S[base+j]
	if so, ok := fc.Opts["stream"]; ok {
		parts := strings.Split(so, ",")
		if len(parts) != 3 {
			panic("opt stream=buf,S,base")
		}
		for _, p := range fn.Params {
			if p.Name() == strings.TrimSpace(parts[0]) {
				sv := st.fr.regs[p].(SliceV)
				seq := st.fr.ghost[strings.TrimSpace(parts[1])].(SeqV)
				base := st.fr.ghost[strings.TrimSpace(parts[2])].(IntV).T
				st.streams = append(st.streams, stream{elemKey: typeKey(sv.Elem), arr: sv.Arr, off: sv.Off, seq: seq, base: base})
				found := false
				for _, r := range st.ro {
					if r.arr == sv.Arr {
						found = true
					}
				}
				if !found {
					st.ro = append(st.ro, roArr{elemKey: typeKey(sv.Elem), arr: sv.Arr})
				}
			}
		}
	}
	// run the parameter-spilling prefix lazily: lets and requires are evaluated on parameters
	env := e.funcEnv(st)
	for _, p := range fn.Params {
		env.vars[p.Name()] = st.fr.regs[p]
	}
	for _, l := range fc.Lets {
		v := e.eval(env, l.Expr)
		st.fr.lets[l.Name] = v
		env.vars[l.Name] = v
	}
	for _, r := range fc.Requires {
		st.assume(e.evalBool(env, r.Expr))
	}
	e.propagateEqualities(st)
	st.entry = st.clone()
	ctx.modFields, ctx.modElems, ctx.modAll = e.modTargets(env, fc)
	// vacuity: requires satisfiable
	rep.ReqSat = &Oblig{Name: funcDisplay(fn) + "/requires-sat", Kind: "requires-sat", Func: funcDisplay(fn), pc: st.pc, Goal: nil}
	outs := e.execBlock(st, fn.Blocks[0], 0)
	var exitPCs []*pcNode
	for _, o := range outs {
		ctx.exits++
		if o.panics {
			continue
		}
		penv := e.funcEnv(o.st)
		for _, p := range fn.Params {
			// parameters by name refer to their *current* cell value when spilled; fall back to entry value
			if _, ok := penv.lookupLocal(p.Name()); !ok {
				penv.vars[p.Name()] = o.st.entry.fr.regs[p]
			}
		}
		penv.setResult(o.result, fn.Signature)
		o.st.label("exit")
		// instances stated at the exits are plain (guarded) hypotheses: their indices may be meaningless on some exits
		e.noRewrite = true
		for _, u := range fc.Uses {
			o.st.assume(e.evalBool(penv, u))
		}
		e.noRewrite = false
		for _, en := range fc.Ensures {
			e.addOblig(o.st, "post", clauseLabel(en), propsOr(en.Props, "SAFETY"), e.evalBool(penv, en.Expr), fn.Pos())
		}
		e.frameObligations(o.st, fc)
		exitPCs = append(exitPCs, o.st.pc)
	}
	// canary: some exit (normal or raising) must be reachable under the assumptions
	for _, o := range outs {
		if o.panics {
			exitPCs = append(exitPCs, o.st.pc)
		}
	}
	if len(exitPCs) > 0 {
		entryN := lenPC(st.entry.pc)
		var alts []*smt.Term
		for _, pc := range exitPCs {
			l := pc.list()
			if len(l) >= entryN {
				alts = append(alts, smt.And(l[entryN:]...))
			}
		}
		rep.Canary = &Oblig{Name: funcDisplay(fn) + "/canary", Kind: "canary", Func: funcDisplay(fn), Hyps: append(st.entry.pc.list(), smt.Or(alts...)), Goal: nil}
	}
	return rep
}

func allProps(fc *contract.Func) []string {
	set := map[string]bool{}
	add := func(cs []contract.Clause) {
		for _, c := range cs {
			for _, p := range c.Props {
				set[p] = true
			}
		}
	}
	add(fc.Requires)
	add(fc.Ensures)
	for _, l := range fc.Loops {
		add(l.Invariants)
	}
	set["SAFETY"] = true
	var out []string
	for p := range set {
		out = append(out, p)
	}
	return out
}

// renameParam builds a symbolic value for a parameter with readable leaf names.
func renameParam(name string, t types.Type) Value {
	ls := leavesOf(t)
	ts := make([]*smt.Term, len(ls))
	for i, l := range ls {
		ts[i] = smt.Var(fmt.Sprintf("%s%s!in", name, l.Suffix), l.Sort)
	}
	return fromLeaves(t, ts)
}

// assumeAllocated: every array/object id in an incoming value was allocated before the call.
func (e *Engine) assumeAllocated(st *State, v Value) {
	switch x := v.(type) {
	case SliceV:
		st.assume(smt.Lt(x.Arr, st.alloc))
	case RefV:
		st.assume(smt.Lt(x.T, st.alloc))
	case PtrV:
		if x.Ref != nil {
			st.assume(smt.Lt(x.Ref, st.alloc))
		}
	}
}

// ghostValue creates a ghost variable of a named type: int, bool, seq, or a spec struct type "spec.T".
func (e *Engine) ghostValue(name, typ string, fn *ssa.Function) Value {
	switch typ {
	case "int":
		return IntV{smt.Var(name+"!ghost", smt.Int)}
	case "bool":
		return BoolV{smt.Var(name+"!ghost", smt.Bool)}
	case "seq":
		return SeqV{Arr: smt.Var(name+"#arr!ghost", smt.IArr), Len: smt.Var(name+"#len!ghost", smt.Int)}
	}
	if i := strings.Index(typ, "."); i >= 0 {
		pkgName, tn := typ[:i], typ[i+1:]
		for _, sp := range e.SSAPkgs {
			if sp.Pkg.Name() == pkgName {
				if m, ok := sp.Members[tn].(*ssa.Type); ok {
					return renameParam(name+"!ghost", m.Type())
				}
			}
		}
	}
	panic("unknown ghost type " + typ)
}

// VerifyLemmas generates the obligations of every lemma (plain or by induction).
func (e *Engine) VerifyLemmas() {
	for _, l := range e.Lemmas {
		e.verifyLemma(l)
	}
}

func (e *Engine) lemmaEnv(l *contract.Lemma, st *State, override map[string]Value) *Env {
	env := &Env{e: e, st: st, old: st, vars: map[string]Value{}}
	if p := e.SSAPkgs[e.LemmaPkg[l]]; p != nil {
		env.pkg = p
	}
	for _, prm := range l.Params {
		fs := strings.Fields(prm)
		typ := "int"
		if len(fs) > 1 {
			typ = fs[1]
		}
		env.vars[fs[0]] = e.ghostValue(l.Name+"."+fs[0], typ, nil)
	}
	for k, v := range override {
		env.vars[k] = v
	}
	return env
}

func (e *Engine) verifyLemma(l *contract.Lemma) {
	smt.SetFreshScope(scopeTag("lemma " + l.Name))
	name := "lemma " + l.Name
	defer func() {
		if r := recover(); r != nil {
			e.Obligs = append(e.Obligs, &Oblig{Name: name + "/outside-subset", Kind: "subset", Props: propsOr(l.Props, "SAFETY"), Func: name, Goal: smt.False, Note: fmt.Sprint(r)})
		}
	}()
	newState := func() *State {
		return &State{cellVals: map[*Cell]Value{}, heaps: map[string]*smt.Term{}, facts: map[*smt.Term]bool{}, globals: map[*ssa.Global]Value{}, nonnil: map[*smt.Term]bool{}, alloc: smt.IntC(1), fr: &Frame{regs: map[ssa.Value]Value{}, cells: map[*ssa.Alloc]*Cell{}, active: map[*ssa.BasicBlock]*loopAct{}, lets: map[string]Value{}, ghost: map[string]Value{}, callCount: map[string]int{}}}
	}
	add := func(st *State, label string, goal *smt.Term) {
		o := &Oblig{Name: name + "/" + label, Kind: "lemma", Props: propsOr(l.Props, "SAFETY"), Func: name, Goal: goal, pc: st.pc, Seq: len(e.Obligs)}
		if goal == smt.True {
			o.Trivial = true
		}
		e.Obligs = append(e.Obligs, o)
	}
	if l.Induct == "" {
		st := newState()
		env := e.lemmaEnv(l, st, nil)
		for _, r := range l.Requires {
			st.assume(e.evalBool(env, r.Expr))
		}
		for _, u := range l.Uses {
			st.assume(e.evalBool(env, u))
		}
		add(st, "goal", e.evalBool(env, l.Expr))
		return
	}
	// base case
	st := newState()
	env := e.lemmaEnv(l, st, map[string]Value{l.Induct: IntV{smt.IntC(0)}})
	for _, u := range l.Uses {
		st.assume(e.evalBool(env, u))
	}
	add(st, "base", e.evalBool(env, l.Expr))
	// step
	st = newState()
	k := smt.Var(l.Name+".k!ind", smt.Int)
	st.assume(smt.Le(smt.IntC(0), k))
	envK := e.lemmaEnv(l, st, map[string]Value{l.Induct: IntV{k}})
	st.assume(e.evalBool(envK, l.Expr))
	for _, u := range l.Uses {
		st.assume(e.evalBool(envK, u))
	}
	envK1 := e.lemmaEnv(l, st, map[string]Value{l.Induct: IntV{smt.Add(k, smt.IntC(1))}})
	add(st, "step", e.evalBool(envK1, l.Expr))
}

// scopeTag is the fresh-name scope of a function or lemma: a short hash of its name.
func scopeTag(name string) string {
	h := sha256.Sum256([]byte(name))
	return fmt.Sprintf("%x_", h[:3])
}
