package symex

import (
	"fmt"
	"os"
	"go/constant"
	"go/token"
	"go/types"
	"math/big"
	"strings"

	"golang.org/x/tools/go/ssa"

	"verif/internal/contract"
	"verif/internal/smt"
)

// outcome is the end of one path through a function body.
type outcome struct {
	st     *State
	result Value // nil, single value or TupleV
	panics bool  // ended in explicit panic
	child  *regionInfo // the path reached the entry of a child region
	left   bool        // the path left the region under verification
}

// addOblig records a proof obligation at the current state.
func (e *Engine) addOblig(st *State, kind, clause string, props []string, goal *smt.Term, pos token.Pos) {
	if st.dead || e.pure > 0 {
		return
	}
	if dbg := os.Getenv("VCHECK_NORMDEBUG"); dbg != "" && goal != nil && strings.Contains(e.cur.name(st, kind, clause), dbg) {
		ni := e.normFor(st)
		cs := []*smt.Term{goal}
		if goal.Op == "and" {
			cs = goal.Args
		}
		for i, c := range cs {
			n := ni.normalizeB(c)
			fmt.Fprintf(os.Stderr, "NORM %d:\n  before: %s\n  after:  %s\n", i, c.String(), n.String())
		}
	}
	goal = e.normGoal(st, goal)
	ctx := e.cur
	if ctx.fc != nil && ctx.fc.Opts["props"] != "" {
		props = append(append([]string(nil), props...), strings.Fields(ctx.fc.Opts["props"])...)
	}
	name := ctx.name(st, kind, clause)
	o := &Oblig{Name: name, Kind: kind, Props: props, Func: funcDisplay(ctx.fn), Goal: goal, Pos: e.posString(pos)}
	if goal == smt.True {
		o.Trivial = true
	}
	o.pc = st.pc
	o.Seq = len(e.Obligs)
	if ctx.region != nil && st.fr.parent == nil && len(st.fr.lets) > 0 {
		// the named entry values of the region: witness terms for replaying a counterexample on the real code
		o.Report = map[string]*smt.Term{}
		for n, v := range st.fr.lets {
			switch x := v.(type) {
			case IntV:
				o.Report[n] = x.T
			case BoolV:
				o.Report[n] = x.T
			case AnyV:
				o.Report[n] = x.T
			}
		}
		o.Region = ctx.region.r.Name
	}
	ctx.nOblig++
	e.Obligs = append(e.Obligs, o)
}

// check records the obligation and then assumes the goal on the path.
func (e *Engine) check(st *State, kind, clause string, props []string, goal *smt.Term, pos token.Pos) {
	if e.pure > 0 {
		return
	}
	e.addOblig(st, kind, clause, props, goal, pos)
	st.assume(goal)
}

func (c *verifyCtx) name(st *State, kind, clause string) string {
	lbl := strings.Join(st.labels, "/")
	s := funcDisplay(c.fn)
	if lbl != "" {
		s += "/" + lbl
	}
	s += "/" + kind
	if clause != "" {
		s += ":" + clause
	}
	return s
}

// nonNil records a nil-dereference obligation for ref unless already known.
func (e *Engine) nonNil(st *State, ref *smt.Term, pos token.Pos) {
	if st.nonnil[ref] || e.pure > 0 {
		return
	}
	e.safety(st, "nil-deref", smt.Ne(ref, smt.IntC(0)), pos)
	st.nonnil[ref] = true
}

func exactProps(fc *contract.Func) []string {
	if p := strings.Fields(fc.Opts["exactprops"]); len(p) > 0 {
		return p
	}
	return []string{"SAFETY"}
}

// wrapAll: in thin safety sweeps int/int64 arithmetic on data wraps silently (Go semantics) instead of raising an obligation.
func (e *Engine) wrapAll() bool {
	return e.cur != nil && e.cur.fc != nil && (e.cur.fc.Opts["sweep"] != "" || e.cur.fc.Opts["wrap"] != "")
}

// assumeTypeInv assumes the declared invariant of the pointee type of p (typeinv clauses; trusted).
func (e *Engine) assumeTypeInv(st *State, p PtrV) {
	if len(p.Path) != 0 || e.pure > 0 {
		return
	}
	n, ok := p.Base.(*types.Named)
	if !ok || n.Obj().Pkg() == nil {
		return
	}
	pred, ok := e.TypeInvs[n.Obj().Pkg().Path()+"."+n.Obj().Name()]
	if !ok {
		return
	}
	key := smt.Var("typeinv!"+n.Obj().Name(), smt.Int)
	mark := smt.Eq(key, p.Ref)
	if st.facts[mark] {
		return
	}
	st.facts[mark] = true
	env := &Env{e: e, st: st, old: st, vars: map[string]Value{"self": p}, pkg: e.SSAPkgs[n.Obj().Pkg().Path()]}
	st.assume(e.evalBool(env, pred.Body))
}

// safety records an implicit safety obligation (property C06 by convention).
func (e *Engine) safety(st *State, kind string, goal *smt.Term, pos token.Pos) {
	e.check(st, kind, e.posTag(pos), []string{"SAFETY"}, goal, pos)
}

func (e *Engine) posTag(pos token.Pos) string {
	t := e.exprText(pos)
	return t
}

// ---------------------------------------------------------------------------

func (e *Engine) get(st *State, v ssa.Value) Value {
	switch x := v.(type) {
	case *ssa.Const:
		return e.constValue(x)
	case *ssa.Global:
		return PtrV{Global: x, Elem: x.Type().(*types.Pointer).Elem()}
	case *ssa.Function:
		return RefV{T: smt.Var("fn:"+x.String(), smt.Int), Typ: x.Type()}
	case *ssa.Builtin:
		return RefV{T: smt.Var("builtin:"+x.Name(), smt.Int), Typ: x.Type()}
	}
	if r, ok := st.fr.regs[v]; ok {
		return r
	}
	panic(fmt.Sprintf("no value for %s (%T) in %s", v.Name(), v, st.fr.fn))
}

func (e *Engine) constValue(c *ssa.Const) Value {
	t := c.Type()
	if c.Value == nil {
		return zeroValue(t)
	}
	switch shapeOf(t) {
	case shInt:
		if c.Value.Kind() == constant.Float {
			f, _ := constant.Float64Val(c.Value)
			return IntV{smt.IntC(int64(f))}
		}
		bi, ok := constant.Val(constant.ToInt(c.Value)).(*big.Int)
		if ok {
			return IntV{smt.BigC(bi)}
		}
		i, _ := constant.Int64Val(constant.ToInt(c.Value))
		return IntV{smt.IntC(i)}
	case shBool:
		return BoolV{smt.BoolC(constant.BoolVal(c.Value))}
	case shStr:
		return e.strConst(constant.StringVal(c.Value))
	case shFloat:
		return FloatV{floatConst(c.Value)}
	}
	panic(unsupported("constant of type " + t.String()))
}

func floatConst(v constant.Value) *smt.Term {
	f, _ := constant.Float64Val(v)
	if f == float64(int64(f)) && f > -1e15 && f < 1e15 {
		return smt.App("f64_of_int", smt.F64, smt.IntC(int64(f)))
	}
	return smt.App("f64_const", smt.F64, smt.IntC(int64(hashStr(v.ExactString()))))
}

// ---------------------------------------------------------------------------
// Pointer load / store

func (e *Engine) load(st *State, p PtrV, pos token.Pos) Value {
	switch {
	case p.Cell != nil:
		v, ok := st.cellVals[p.Cell]
		if !ok {
			panic(fmt.Sprintf("load of uninitialised cell %s", p.Cell.Name))
		}
		return getPath(v, p.Path)
	case p.Slice != nil:
		return st.loadElem(p.Slice.Elem, p.Path, p.Slice.Arr, smt.Add(p.Slice.Off, p.Idx))
	case p.Global != nil:
		if v, ok := st.globals[p.Global]; ok {
			return getPath(v, p.Path)
		}
		if cv, ok := e.constGlobal(p.Global); ok {
			st.globals[p.Global] = cv
			return getPath(cv, p.Path)
		}
		v, facts := freshValue("g:"+p.Global.Name(), p.Global.Type().(*types.Pointer).Elem())
		// globals are named deterministically so that they agree across paths
		ls := leavesOf(p.Global.Type().(*types.Pointer).Elem())
		ts := make([]*smt.Term, len(ls))
		for i, l := range ls {
			ts[i] = smt.Var(fmt.Sprintf("G:%s.%s%s@%d", p.Global.Pkg.Pkg.Name(), p.Global.Name(), l.Suffix, st.epoch), l.Sort)
		}
		_ = v
		_ = facts
		gv := fromLeaves(p.Global.Type().(*types.Pointer).Elem(), ts)
		st.assumeFacts(typeFacts(p.Global.Type().(*types.Pointer).Elem(), gv))
		st.globals[p.Global] = gv
		return getPath(gv, p.Path)
	case p.Ref != nil:
		e.nonNil(st, p.Ref, pos)
		return st.loadField(p.Base, p.Path, p.Ref)
	}
	panic("load: bad pointer")
}

func (e *Engine) store(st *State, p PtrV, v Value, pos token.Pos) {
	switch {
	case p.Cell != nil:
		old := st.cellVals[p.Cell]
		st.cellVals[p.Cell] = setPath(old, p.Path, v)
	case p.Slice != nil:
		e.frameCheck(st, p.Slice.Elem, p.Slice.Arr, pos)
		st.storeElem(p.Slice.Elem, p.Path, p.Slice.Arr, smt.Add(p.Slice.Off, p.Idx), v)
	case p.Global != nil:
		old, ok := st.globals[p.Global]
		if !ok && len(p.Path) > 0 {
			old = e.load(st, PtrV{Global: p.Global, Elem: p.Elem}, pos)
		}
		st.globals[p.Global] = setPath(old, p.Path, v)
	case p.Ref != nil:
		e.nonNil(st, p.Ref, pos)
		st.storeField(p.Base, p.Path, p.Ref, v)
	default:
		panic("store: bad pointer")
	}
}

// frameCheck: a write into an element heap must not hit a read-only array.
func (e *Engine) frameCheck(st *State, elem types.Type, arr *smt.Term, pos token.Pos) {
	ek := typeKey(elem)
	for _, r := range st.ro {
		if r.elemKey == ek {
			e.check(st, "frame", "readonly "+e.posTag(pos), []string{"SAFETY"}, smt.Ne(arr, r.arr), pos)
		}
	}
}

// ---------------------------------------------------------------------------
// Integer arithmetic

func pow2(n uint) *big.Int { return new(big.Int).Lsh(big.NewInt(1), n) }

// wrap reduces the mathematical value x into the range of t (Go semantics).
func wrap(t types.Type, x *smt.Term) *smt.Term {
	lo, hi := intRange(t)
	if l, h, ok := bounds(x); ok && l.Cmp(lo) >= 0 && h.Cmp(hi) <= 0 {
		return x
	}
	if isSigned(t) {
		half := new(big.Int).Add(hi, big.NewInt(1))
		return smt.App("wraps", smt.Int, x, smt.BigC(half))
	}
	m := new(big.Int).Add(hi, big.NewInt(1))
	return smt.App("wrapu", smt.Int, x, smt.BigC(m))
}

// bounds computes a syntactic interval for an integer term.
func bounds(x *smt.Term) (lo, hi *big.Int, ok bool) {
	return boundsD(x, 0)
}

var knownRanges = map[*smt.Term][2]*big.Int{}

func boundsD(x *smt.Term, d int) (lo, hi *big.Int, ok bool) {
	if d > 12 {
		return nil, nil, false
	}
	if r, ok := knownRanges[x]; ok {
		return r[0], r[1], true
	}
	switch x.Op {
	case "const":
		return x.Val, x.Val, true
	case "+":
		lo, hi = new(big.Int), new(big.Int)
		for _, a := range x.Args {
			l1, h1, ok1 := boundsD(a, d+1)
			if !ok1 {
				return nil, nil, false
			}
			lo.Add(lo, l1)
			hi.Add(hi, h1)
		}
		return lo, hi, true
	case "-":
		l1, h1, ok1 := boundsD(x.Args[0], d+1)
		l2, h2, ok2 := boundsD(x.Args[1], d+1)
		if ok1 && ok2 {
			return new(big.Int).Sub(l1, h2), new(big.Int).Sub(h1, l2), true
		}
	case "*":
		l1, h1, ok1 := boundsD(x.Args[0], d+1)
		l2, h2, ok2 := boundsD(x.Args[1], d+1)
		if ok1 && ok2 {
			c := []*big.Int{new(big.Int).Mul(l1, l2), new(big.Int).Mul(l1, h2), new(big.Int).Mul(h1, l2), new(big.Int).Mul(h1, h2)}
			lo, hi = c[0], c[0]
			for _, v := range c[1:] {
				if v.Cmp(lo) < 0 {
					lo = v
				}
				if v.Cmp(hi) > 0 {
					hi = v
				}
			}
			return lo, hi, true
		}
	case "ite":
		l1, h1, ok1 := boundsD(x.Args[1], d+1)
		l2, h2, ok2 := boundsD(x.Args[2], d+1)
		if ok1 && ok2 {
			lo, hi = l1, h1
			if l2.Cmp(lo) < 0 {
				lo = l2
			}
			if h2.Cmp(hi) > 0 {
				hi = h2
			}
			return lo, hi, true
		}
	case "mod":
		if x.Args[1].IsConst() && x.Args[1].Val.Sign() > 0 {
			return big.NewInt(0), new(big.Int).Sub(x.Args[1].Val, big.NewInt(1)), true
		}
	case "app":
		if d, ok := smt.FunDefs[x.Name]; ok && d.Range != nil {
			first := true
			for v := range d.Range {
				b := big.NewInt(v)
				if first || b.Cmp(lo) < 0 {
					lo = b
				}
				if first || b.Cmp(hi) > 0 {
					hi = b
				}
				first = false
			}
			return lo, hi, true
		}
		if x.Name == "wrapu" && x.Args[1].IsConst() {
			return big.NewInt(0), new(big.Int).Sub(x.Args[1].Val, big.NewInt(1)), true
		}
		if x.Name == "wraps" && x.Args[1].IsConst() {
			return new(big.Int).Neg(x.Args[1].Val), new(big.Int).Sub(x.Args[1].Val, big.NewInt(1)), true
		}
	}
	return nil, nil, false
}

// atomicTerm: a variable or a read of a heap variable. Only these carry a
// type range that is valid independently of the path that built the term.
func atomicTerm(t *smt.Term) bool {
	switch t.Op {
	case "var":
		return true
	case "select":
		return atomicTerm(t.Args[0])
	}
	return false
}

func recordRange(t types.Type, v Value) {
	if iv, ok := v.(IntV); ok && shapeOf(t) == shInt {
		if _, isb := t.Underlying().(*types.Basic); isb {
			lo, hi := intRange(t)
			if _, ok := knownRanges[iv.T]; !ok && atomicTerm(iv.T) {
				knownRanges[iv.T] = [2]*big.Int{lo, hi}
			}
		}
	}
}

func (e *Engine) intBinOp(st *State, op token.Token, t types.Type, x, y *smt.Term, yt types.Type, pos token.Pos) *smt.Term {
	arith := func(r *smt.Term) *smt.Term {
		if e.cur != nil && e.cur.fc != nil && e.cur.fc.Exact && st.fr.parent == nil && !exactInt(t) {
			// contract marked exact: the machine value must be the mathematical value
			lo, hi := intRange(t)
			if l, h, ok := bounds(r); ok && l.Cmp(lo) >= 0 && h.Cmp(hi) <= 0 {
				return r
			}
			e.check(st, "overflow", "exact "+e.posTag(pos), exactProps(e.cur.fc), smt.And(smt.Le(smt.BigC(lo), r), smt.Le(r, smt.BigC(hi))), pos)
			return r
		}
		if exactInt(t) && !e.wrapAll() {
			lo, hi := intRange(t)
			if l, h, ok := bounds(r); ok && l.Cmp(lo) >= 0 && h.Cmp(hi) <= 0 {
				return r
			}
			e.check(st, "overflow", e.posTag(pos), []string{"SAFETY"}, smt.And(smt.Le(smt.BigC(lo), r), smt.Le(r, smt.BigC(hi))), pos)
			return r
		}
		return wrap(t, r)
	}
	switch op {
	case token.ADD:
		return arith(smt.Add(x, y))
	case token.SUB:
		return arith(smt.Sub(x, y))
	case token.MUL:
		return arith(smt.Mul(x, y))
	case token.QUO:
		e.safety(st, "div-zero", smt.Ne(y, smt.IntC(0)), pos)
		return arith(goDiv(x, y))
	case token.REM:
		e.safety(st, "div-zero", smt.Ne(y, smt.IntC(0)), pos)
		return goMod(x, y)
	case token.SHL:
		if y.IsConst() && y.Val.IsInt64() && y.Val.Int64() < 64 {
			return arithShl(t, smt.Mul(x, smt.BigC(pow2(uint(y.Val.Int64())))), arith)
		}
	case token.SHR:
		if y.IsConst() && y.Val.IsInt64() && y.Val.Int64() < 64 {
			// arithmetic shift = floor division for both signs
			return smt.Div(x, smt.BigC(pow2(uint(y.Val.Int64()))))
		}
	case token.AND:
		if m, ok := maskBits(y); ok {
			if l, _, okb := bounds(x); okb && l.Sign() >= 0 {
				return smt.Mod(x, smt.BigC(pow2(m)))
			}
			if !isSigned(t) {
				return smt.Mod(x, smt.BigC(pow2(m)))
			}
		}
		if m, ok := maskBits(x); ok && !isSigned(t) {
			return smt.Mod(y, smt.BigC(pow2(m)))
		}
	case token.OR:
		// (x * 2^k) | d with 0 <= d < 2^k  ==> x*2^k + d
		if k, ok := lowZeroBits(x); ok {
			if l, h, okb := bounds(y); okb && l.Sign() >= 0 && h.Cmp(pow2(k)) < 0 {
				return arith(smt.Add(x, y))
			}
		}
		if k, ok := lowZeroBits(y); ok {
			if l, h, okb := bounds(x); okb && l.Sign() >= 0 && h.Cmp(pow2(k)) < 0 {
				return arith(smt.Add(x, y))
			}
		}
	}
	// uninterpreted bit operation
	name := "bitop_" + smt.Mangle(op.String())
	if _, ok := smt.FunDecls[name]; !ok {
		smt.DeclareFun(name, []smt.Sort{smt.Int, smt.Int}, smt.Int)
	}
	e.note("uninterpreted bit operation " + op.String() + " at " + e.posString(pos))
	r := smt.App(name, smt.Int, x, y)
	lo, hi := intRange(t)
	st.assume(smt.Le(smt.BigC(lo), r))
	st.assume(smt.Le(r, smt.BigC(hi)))
	return r
}

func arithShl(t types.Type, r *smt.Term, arith func(*smt.Term) *smt.Term) *smt.Term {
	// Go shifts discard overflowing bits: wrap semantics for every type.
	return wrap(t, r)
}

func maskBits(x *smt.Term) (uint, bool) {
	if !x.IsConst() {
		return 0, false
	}
	v := new(big.Int).Add(x.Val, big.NewInt(1))
	if v.Sign() > 0 && new(big.Int).And(v, x.Val).Sign() == 0 {
		return uint(v.BitLen() - 1), true
	}
	return 0, false
}

// lowZeroBits recognises wrap(x * 2^k) / x*2^k forms.
func lowZeroBits(x *smt.Term) (uint, bool) {
	if x.Op == "app" && (x.Name == "wraps" || x.Name == "wrapu") {
		return lowZeroBits(x.Args[0])
	}
	if x.Op == "*" && x.Args[1].IsConst() {
		v := x.Args[1].Val
		if v.Sign() > 0 && new(big.Int).And(v, new(big.Int).Sub(v, big.NewInt(1))).Sign() == 0 {
			return uint(v.BitLen() - 1), true
		}
	}
	if x.Op == "*" && x.Args[0].IsConst() {
		v := x.Args[0].Val
		if v.Sign() > 0 && new(big.Int).And(v, new(big.Int).Sub(v, big.NewInt(1))).Sign() == 0 {
			return uint(v.BitLen() - 1), true
		}
	}
	return 0, false
}

func nonNeg(x *smt.Term) bool {
	l, _, ok := bounds(x)
	return ok && l.Sign() >= 0
}

func goDiv(x, y *smt.Term) *smt.Term {
	if nonNeg(x) && y.IsConst() && y.Val.Sign() > 0 {
		return smt.Div(x, y)
	}
	if x.IsConst() && y.IsConst() && y.Val.Sign() != 0 {
		return smt.BigC(new(big.Int).Quo(x.Val, y.Val))
	}
	return smt.App("tdiv", smt.Int, x, y)
}

func goMod(x, y *smt.Term) *smt.Term {
	if nonNeg(x) && y.IsConst() && y.Val.Sign() > 0 {
		return smt.Mod(x, y)
	}
	if x.IsConst() && y.IsConst() && y.Val.Sign() != 0 {
		return smt.BigC(new(big.Int).Rem(x.Val, y.Val))
	}
	return smt.App("tmod", smt.Int, x, y)
}

func cmpOp(op token.Token, x, y *smt.Term) *smt.Term {
	switch op {
	case token.EQL:
		return smt.Eq(x, y)
	case token.NEQ:
		return smt.Ne(x, y)
	case token.LSS:
		return smt.Lt(x, y)
	case token.LEQ:
		return smt.Le(x, y)
	case token.GTR:
		return smt.Gt(x, y)
	case token.GEQ:
		return smt.Ge(x, y)
	}
	panic("cmpOp " + op.String())
}

func isCmp(op token.Token) bool {
	switch op {
	case token.EQL, token.NEQ, token.LSS, token.LEQ, token.GTR, token.GEQ:
		return true
	}
	return false
}

// strEq builds Go string equality.
func strEq(a, b StrV) *smt.Term {
	if a.Arr == b.Arr && a.Off == b.Off && a.Len == b.Len {
		return smt.True
	}
	// constant vs constant
	if ta, ok := constArrs[a.Arr]; ok && a.Len.IsConst() && a.Off.IsConst() {
		if tb, ok := constArrs[b.Arr]; ok && b.Len.IsConst() && b.Off.IsConst() {
			if a.Len.Int64() != b.Len.Int64() {
				return smt.False
			}
			da, db := smt.FunDefs[ta], smt.FunDefs[tb]
			for i := int64(0); i < a.Len.Int64(); i++ {
				if da.Table[a.Off.Int64()+i] != db.Table[b.Off.Int64()+i] {
					return smt.False
				}
			}
			return smt.True
		}
	}
	small := func(s StrV) bool { return s.Len.IsConst() && s.Len.Int64() <= 12 }
	if small(a) || small(b) {
		if small(b) {
			a, b = b, a
		}
		n := a.Len.Int64()
		cs := []*smt.Term{smt.Eq(b.Len, smt.IntC(n))}
		for i := int64(0); i < n; i++ {
			cs = append(cs, smt.Eq(strIndex(a, smt.IntC(i)), strIndex(b, smt.IntC(i))))
		}
		return smt.And(cs...)
	}
	i := smt.Fresh("i!seq", smt.Int)
	body := smt.Implies(smt.And(smt.Le(smt.IntC(0), i), smt.Lt(i, a.Len)), smt.Eq(strIndex(a, i), strIndex(b, i)))
	return smt.And(smt.Eq(a.Len, b.Len), smt.Forall([]*smt.Term{i}, body))
}

// strIdent is representation identity (stronger than equality).
func strIdent(a, b StrV) *smt.Term {
	return smt.And(smt.Eq(a.Arr, b.Arr), smt.Eq(a.Off, b.Off), smt.Eq(a.Len, b.Len))
}

func (e *Engine) binop(st *State, op token.Token, x, y Value, xt, yt, rt types.Type, pos token.Pos) Value {
	switch a := x.(type) {
	case IntV:
		b, ok := y.(IntV)
		if !ok {
			panic(unsupported(fmt.Sprintf("binop int with %T", y)))
		}
		if isCmp(op) {
			return BoolV{cmpOp(op, a.T, b.T)}
		}
		return IntV{e.intBinOp(st, op, rt, a.T, b.T, yt, pos)}
	case BoolV:
		b := y.(BoolV)
		switch op {
		case token.EQL:
			return BoolV{smt.Eq(a.T, b.T)}
		case token.NEQ:
			return BoolV{smt.Ne(a.T, b.T)}
		case token.AND, token.LAND:
			return BoolV{smt.And(a.T, b.T)}
		case token.OR, token.LOR:
			return BoolV{smt.Or(a.T, b.T)}
		}
	case StrV:
		b := y.(StrV)
		switch op {
		case token.EQL:
			return BoolV{strEq(a, b)}
		case token.NEQ:
			return BoolV{smt.Not(strEq(a, b))}
		case token.ADD:
			e.note("string concatenation modelled as opaque (length exact) at " + e.posString(pos))
			r, f := freshValue("concat", rt)
			st.assumeFacts(f)
			st.assume(smt.Eq(r.(StrV).Len, smt.Add(a.Len, b.Len)))
			return r
		case token.LSS, token.LEQ, token.GTR, token.GEQ:
			name := "str_lt"
			if _, ok := smt.FunDecls[name]; !ok {
				smt.DeclareFun(name, []smt.Sort{smt.IArr, smt.Int, smt.Int, smt.IArr, smt.Int, smt.Int}, smt.Bool)
			}
			lt := func(p, q StrV) *smt.Term { return smt.App(name, smt.Bool, p.Arr, p.Off, p.Len, q.Arr, q.Off, q.Len) }
			e.note("string ordering is uninterpreted at " + e.posString(pos))
			switch op {
			case token.LSS:
				return BoolV{lt(a, b)}
			case token.GTR:
				return BoolV{lt(b, a)}
			case token.LEQ:
				return BoolV{smt.Not(lt(b, a))}
			case token.GEQ:
				return BoolV{smt.Not(lt(a, b))}
			}
		}
	case FloatV:
		b := y.(FloatV)
		switch op {
		case token.EQL:
			return BoolV{smt.App("f64_eq", smt.Bool, a.T, b.T)}
		case token.NEQ:
			return BoolV{smt.Not(smt.App("f64_eq", smt.Bool, a.T, b.T))}
		case token.LSS:
			return BoolV{smt.App("f64_lt", smt.Bool, a.T, b.T)}
		case token.GTR:
			return BoolV{smt.App("f64_lt", smt.Bool, b.T, a.T)}
		case token.LEQ:
			return BoolV{smt.App("f64_le", smt.Bool, a.T, b.T)}
		case token.GEQ:
			return BoolV{smt.App("f64_le", smt.Bool, b.T, a.T)}
		case token.ADD:
			return FloatV{smt.App("f64_add", smt.F64, a.T, b.T)}
		case token.SUB:
			return FloatV{smt.App("f64_sub", smt.F64, a.T, b.T)}
		case token.MUL:
			return FloatV{smt.App("f64_mul", smt.F64, a.T, b.T)}
		case token.QUO:
			return FloatV{smt.App("f64_div", smt.F64, a.T, b.T)}
		}
	case AnyV:
		b, ok := y.(AnyV)
		if !ok {
			b = AnyV{toAny(yt, y)}
		}
		// comparable obligation: both slices/maps/funcs of same type panic
		if b.T != anyNil() && a.T != anyNil() {
			unc := smt.And(smt.AppS("is-any_slice", smt.Bool, a.T), smt.AppS("is-any_slice", smt.Bool, b.T),
				smt.Eq(smt.AppS("tid_l", smt.Int, a.T), smt.AppS("tid_l", smt.Int, b.T)))
			uncRef := smt.And(smt.AppS("is-any_ref", smt.Bool, a.T), smt.AppS("is-any_ref", smt.Bool, b.T),
				smt.Eq(smt.AppS("tid_r", smt.Int, a.T), smt.AppS("tid_r", smt.Int, b.T)),
				smt.App("uncomparable_tid", smt.Bool, smt.AppS("tid_r", smt.Int, a.T)))
			if _, ok := smt.FunDecls["uncomparable_tid"]; !ok {
				smt.DeclareFun("uncomparable_tid", []smt.Sort{smt.Int}, smt.Bool)
			}
			e.safety(st, "uncomparable", smt.Not(smt.Or(unc, uncRef)), pos)
		}
		eq := anyEq(a.T, b.T)
		if op == token.EQL {
			return BoolV{eq}
		}
		if op == token.NEQ {
			return BoolV{smt.Not(eq)}
		}
	case RefV:
		b := y.(RefV)
		if op == token.EQL {
			return BoolV{smt.Eq(a.T, b.T)}
		}
		if op == token.NEQ {
			return BoolV{smt.Ne(a.T, b.T)}
		}
	case PtrV:
		b := y.(PtrV)
		if a.Ref != nil && b.Ref != nil && len(a.Path) == 0 && len(b.Path) == 0 {
			if op == token.EQL {
				return BoolV{smt.Eq(a.Ref, b.Ref)}
			}
			if op == token.NEQ {
				return BoolV{smt.Ne(a.Ref, b.Ref)}
			}
		}
	case SliceV:
		// only comparison with nil is legal
		b := y.(SliceV)
		var other SliceV
		if b.Arr.IsConst() && b.Arr.Val.Sign() == 0 {
			other = a
		} else {
			other = b
		}
		isNil := smt.Eq(other.Arr, smt.IntC(0))
		if op == token.EQL {
			return BoolV{isNil}
		}
		if op == token.NEQ {
			return BoolV{smt.Not(isNil)}
		}
	}
	panic(unsupported(fmt.Sprintf("binop %s on %T at %s", op, x, e.posString(pos))))
}

// anyEq is interface equality for comparable dynamic types: same constructor
// and payload. Strings compare by content.
func anyEq(a, b *smt.Term) *smt.Term {
	if a == b {
		return smt.True
	}
	bothStr := smt.And(smt.AppS("is-any_str", smt.Bool, a), smt.AppS("is-any_str", smt.Bool, b))
	if bothStr == smt.False {
		return smt.Eq(a, b)
	}
	sa := StrV{smt.AppS("arr_s", smt.IArr, a), smt.AppS("off_s", smt.Int, a), smt.AppS("len_s", smt.Int, a)}
	sb := StrV{smt.AppS("arr_s", smt.IArr, b), smt.AppS("off_s", smt.Int, b), smt.AppS("len_s", smt.Int, b)}
	return smt.Ite(bothStr, smt.And(smt.Eq(smt.AppS("tid_s", smt.Int, a), smt.AppS("tid_s", smt.Int, b)), strEq(sa, sb)), smt.Eq(a, b))
}

// convert implements ssa.Convert / ChangeType.
func (e *Engine) convert(st *State, v Value, from, to types.Type, pos token.Pos) Value {
	sf, stt := shapeOf(from), shapeOf(to)
	switch {
	case sf == shInt && stt == shInt:
		return IntV{wrap(to, v.(IntV).T)}
	case sf == shInt && stt == shFloat:
		return FloatV{smt.App("f64_of_int", smt.F64, v.(IntV).T)}
	case sf == shFloat && stt == shInt:
		r := smt.App("f64_to_int", smt.Int, v.(FloatV).T)
		lo, hi := intRange(to)
		st.assume(smt.Le(smt.BigC(lo), r))
		st.assume(smt.Le(r, smt.BigC(hi)))
		return IntV{r}
	case sf == shFloat && stt == shFloat:
		return v
	case sf == shStr && stt == shStr:
		return v
	case sf == shSlice && stt == shStr:
		// string(bytes): snapshot of the array contents
		s := v.(SliceV)
		for _, sm := range st.streams {
			if sm.elemKey == typeKey(s.Elem) && sm.arr == s.Arr {
				// a window of the ghost stream
				return StrV{Arr: sm.seq.Arr, Off: smt.Add(sm.base, smt.Sub(s.Off, sm.off)), Len: s.Len}
			}
		}
		arr := e.elemArr(st, s)
		return StrV{Arr: arr, Off: s.Off, Len: s.Len}
	case sf == shStr && stt == shSlice:
		s := v.(StrV)
		et := to.Underlying().(*types.Slice).Elem()
		if b, ok := et.Underlying().(*types.Basic); !ok || b.Kind() != types.Uint8 {
			// []rune(s): decoded contents are opaque, length at most len(s)
			id := st.newID()
			st.assume(smt.Lt(smt.IntC(0), id))
			n := smt.Fresh("runes", smt.Int)
			st.assume(smt.Le(smt.IntC(0), n))
			st.assume(smt.Le(n, s.Len))
			st.assume(smt.Implies(smt.Lt(smt.IntC(0), s.Len), smt.Lt(smt.IntC(0), n)))
			e.note("[]rune(string) conversion: contents opaque at " + e.posString(pos))
			return SliceV{Arr: id, Off: smt.IntC(0), Len: n, Cap: n, Elem: et}
		}
		id := st.newID()
		var contents *smt.Term
		if s.Off.IsConst() && s.Off.Val.Sign() == 0 {
			contents = s.Arr
			if _, ok := constArrs[s.Arr]; ok {
				// keep as the constant array; reads resolve through axioms
			}
		} else {
			contents = smt.Fresh("bytesof", smt.IArr)
			i := smt.Fresh("i!b", smt.Int)
			sel := smt.Select(contents, i)
			st.assume(smt.Forall([]*smt.Term{i}, smt.Implies(smt.And(smt.Le(smt.IntC(0), i), smt.Lt(i, s.Len)), smt.Eq(sel, strIndex(s, i))), sel))
		}
		name := elemHeapName(et, "")
		h := st.heap(name, smt.IIArr)
		st.setHeap(name, smt.Store(h, id, contents))
		return SliceV{Arr: id, Off: smt.IntC(0), Len: s.Len, Cap: s.Len, Elem: et}
	case sf == shSlice && stt == shStr && false:
		return v
	case sf == shInt && stt == shStr:
		// string(rune): opaque utf8 encoding
		r, f := freshValue("runestr", to)
		st.assumeFacts(f)
		e.note("string(rune) conversion opaque at " + e.posString(pos))
		return r
	case sf == stt && (sf == shSlice || sf == shRef || sf == shPtr || sf == shStruct || sf == shBool || sf == shAny):
		switch x := v.(type) {
		case SliceV:
			x.Elem = to.Underlying().(*types.Slice).Elem()
			return x
		case RefV:
			x.Typ = to
			return x
		case StructV:
			x.Typ = to
			return x
		}
		return v
	}
	panic(unsupported(fmt.Sprintf("convert %s -> %s", from, to)))
}

// elemArr returns the current contents array of a byte-like slice's backing array.
func (e *Engine) elemArr(st *State, s SliceV) *smt.Term {
	name := elemHeapName(s.Elem, "")
	if st.isRO(typeKey(s.Elem), s.Arr) {
		return smt.Select(smt.Var(fmt.Sprintf("%s@%d", name, 0), smt.IIArr), s.Arr)
	}
	return smt.Select(st.heap(name, smt.IIArr), s.Arr)
}

// constGlobal: a package-level variable that is initialised with a constant
// in the package initialiser and never assigned anywhere else in the package
// is treated as that constant (unexported variables only: no other package can write them).
func (e *Engine) constGlobal(g *ssa.Global) (Value, bool) {
	if v, ok := e.constGlobals[g]; ok {
		return v, v != nil
	}
	e.constGlobals[g] = nil
	if g.Object() == nil || g.Object().Exported() || g.Pkg == nil {
		return nil, false
	}
	var initVal *ssa.Const
	stores := 0
	for _, m := range g.Pkg.Members {
		fn, ok := m.(*ssa.Function)
		if !ok {
			continue
		}
		var visit func(f *ssa.Function)
		visit = func(f *ssa.Function) {
			for _, b := range f.Blocks {
				for _, in := range b.Instrs {
					if s, ok := in.(*ssa.Store); ok && s.Addr == g {
						stores++
						if c, ok := s.Val.(*ssa.Const); ok && f.Name() == "init" {
							initVal = c
						}
					}
					// address taken otherwise (passed around): give up
					if _, isStore := in.(*ssa.Store); !isStore {
						for _, op := range in.Operands(nil) {
							if *op == ssa.Value(g) {
								if _, isLoad := in.(*ssa.UnOp); !isLoad {
									stores += 2
								}
							}
						}
					}
				}
			}
			for _, af := range f.AnonFuncs {
				visit(af)
			}
		}
		visit(fn)
	}
	// methods
	for _, m := range g.Pkg.Members {
		if t, ok := m.(*ssa.Type); ok {
			for _, tt := range []types.Type{t.Type(), types.NewPointer(t.Type())} {
				ms := e.Prog.MethodSets.MethodSet(tt)
				for i := 0; i < ms.Len(); i++ {
					if f := e.Prog.MethodValue(ms.At(i)); f != nil && f.Pkg == g.Pkg {
						for _, b := range f.Blocks {
							for _, in := range b.Instrs {
								if s, ok := in.(*ssa.Store); ok && s.Addr == g {
									stores += 2
								}
							}
						}
					}
				}
			}
		}
	}
	if stores == 1 && initVal != nil {
		v := e.constValue(initVal)
		e.constGlobals[g] = v
		return v, true
	}
	return nil, false
}
