package symex

import (
	"go/types"
	"strings"

	"verif/internal/cexpr"
	"verif/internal/contract"
	"verif/internal/smt"
)

type modField struct {
	base   types.Type
	suffix string // field suffix prefix (".num" covers ".num.I#len" ...)
	ref    *smt.Term
}

type modElem struct {
	elemKey string
	arr     *smt.Term
}

// modTargets evaluates the modifies clause in env (entry state).
func (e *Engine) modTargets(env *Env, fc *contract.Func) (fields []modField, elems []modElem, all bool) {
	for _, m := range fc.Modifies {
		if m.Kind == "ident" && m.Name == "everything" {
			all = true
			continue
		}
		if m.Kind == "call" && m.Args[0].Kind == "ident" && m.Args[0].Name == "heap" {
			v := e.eval(env, m.Args[1])
			if s, ok := v.(SliceV); ok {
				elems = append(elems, modElem{typeKey(s.Elem), s.Arr})
			}
			continue
		}
		var names []string
		cur := m
		for cur.Kind == "sel" {
			names = append([]string{cur.Name}, names...)
			cur = cur.Args[0]
		}
		pv, ok := e.eval(env, cur).(PtrV)
		if !ok || pv.Ref == nil {
			continue
		}
		_, pt := fieldSuffix(pv.Base, pv.Path)
		path := append([]int(nil), pv.Path...)
		t := pt
		for _, nme := range names {
			if nme == "*" {
				break
			}
			idx, ft := fieldPath(t, nme)
			if idx == nil {
				panic("modifies: no field " + nme)
			}
			path = append(path, idx...)
			t = ft
		}
		suf, _ := fieldSuffix(pv.Base, path)
		fields = append(fields, modField{pv.Base, suf, pv.Ref})
	}
	return
}

var _ = cexpr.Parse

// frameObligations checks at a function exit that only the declared targets changed.
func (e *Engine) frameObligations(st *State, fc *contract.Func) {
	if e.cur.modAll {
		return
	}
	if st.epoch != 0 {
		e.addOblig(st, "frame", "all heaps havoced by an unspecified callee", []string{"FRAME"}, smt.False, 0)
		return
	}
	var names []string
	for _, name := range smt.SortedKeys(st.heaps) {
		if st.heaps[name] != smt.Var(name+"@0", st.heaps[name].S) {
			names = append(names, name)
		}
	}
	if len(names) == 0 {
		return
	}
	e.addOblig(st, "frame", "modifies", []string{"FRAME"}, e.frameFormula(st, names), 0)
}

// frameFormula states that the named heaps differ from their entry versions
// only at the targets of the function's modifies clause (and at objects
// allocated during the call).
func (e *Engine) frameFormula(st *State, names []string) *smt.Term {
	fields, elems := e.cur.modFields, e.cur.modElems
	alloc0 := smt.Var("alloc@0", smt.Int)
	var cs []*smt.Term
	for _, name := range names {
		h := st.heaps[name]
		entry := smt.Var(name+"@0", h.S)
		if h == entry {
			continue
		}
		switch {
		case strings.HasPrefix(name, "F:"):
			rest := name[2:]
			i := strings.Index(rest, ":")
			tkey, suffix := rest[:i], rest[i+1:]
			expect := entry
			for _, f := range fields {
				if typeKey(f.base) != tkey {
					continue
				}
				if suffix == f.suffix || strings.HasPrefix(suffix, f.suffix+".") || strings.HasPrefix(suffix, f.suffix+"#") || strings.HasPrefix(suffix, f.suffix+"[") {
					expect = smt.Store(expect, f.ref, smt.Select(h, f.ref))
				}
			}
			r := smt.Fresh("r!f", smt.Int)
			cs = append(cs, smt.Forall([]*smt.Term{r}, smt.Implies(smt.Lt(r, alloc0), smt.Eq(smt.Select(h, r), smt.Select(expect, r)))))
		case strings.HasPrefix(name, "E:"):
			rest := name[2:]
			i := strings.Index(rest, ":")
			tkey := rest[:i]
			a := smt.Fresh("a!f", smt.Int)
			var notMod []*smt.Term
			for _, m := range elems {
				if m.elemKey == tkey {
					notMod = append(notMod, smt.Ne(a, m.arr))
				}
			}
			notMod = append(notMod, smt.Lt(a, alloc0))
			cs = append(cs, smt.Forall([]*smt.Term{a}, smt.Implies(smt.And(notMod...), smt.Eq(smt.Select(h, a), smt.Select(entry, a)))))
		}
	}
	return smt.And(cs...)
}
