package symex

import (
	"fmt"
	"go/types"
	"strings"

	"golang.org/x/tools/go/ssa"

	"verif/internal/smt"
)

type pcNode struct {
	t      *smt.Term
	parent *pcNode
	n      int
}

func (p *pcNode) list() []*smt.Term {
	if p == nil {
		return nil
	}
	out := make([]*smt.Term, p.n)
	for x := p; x != nil; x = x.parent {
		out[x.n-1] = x.t
	}
	return out
}

// Frame is one function activation.
type Frame struct {
	fn        *ssa.Function
	cells     map[*ssa.Alloc]*Cell
	cellOrder []*ssa.Alloc
	regs      map[ssa.Value]Value
	active    map[*ssa.BasicBlock]*loopAct
	lets      map[string]Value
	prev      *ssa.BasicBlock
	defers    []*ssa.Defer
	parent    *Frame
	ghost     map[string]Value
	callCount map[string]int
}

type loopAct struct {
	variant    *smt.Term
	pcAt       *pcNode
	frameHeaps []string
	uses       []*smt.Term
}

func (f *Frame) clone() *Frame {
	if f == nil {
		return nil
	}
	g := &Frame{fn: f.fn, prev: f.prev, parent: f.parent.clone()}
	g.cells = make(map[*ssa.Alloc]*Cell, len(f.cells))
	for k, v := range f.cells {
		g.cells[k] = v
	}
	g.cellOrder = append([]*ssa.Alloc(nil), f.cellOrder...)
	g.regs = make(map[ssa.Value]Value, len(f.regs))
	for k, v := range f.regs {
		g.regs[k] = v
	}
	g.active = make(map[*ssa.BasicBlock]*loopAct, len(f.active))
	for k, v := range f.active {
		g.active[k] = v
	}
	g.lets = make(map[string]Value, len(f.lets))
	for k, v := range f.lets {
		g.lets[k] = v
	}
	g.ghost = make(map[string]Value, len(f.ghost))
	for k, v := range f.ghost {
		g.ghost[k] = v
	}
	g.callCount = make(map[string]int, len(f.callCount))
	for k, v := range f.callCount {
		g.callCount[k] = v
	}
	g.defers = append([]*ssa.Defer(nil), f.defers...)
	return g
}

// State is one symbolic path state.
type State struct {
	fr       *Frame
	cellVals map[*Cell]Value
	heaps    map[string]*smt.Term
	epoch    int
	pc       *pcNode
	alloc    *smt.Term
	labels   []string
	facts    map[*smt.Term]bool
	globals  map[*ssa.Global]Value
	ro       []roArr // read-only arrays
	entry    *State  // snapshot at function entry (for old())
	dead     bool
	pure     bool
	nonnil   map[*smt.Term]bool
	streams  []stream
	rw       map[*smt.Term]*smt.Term // rewrites: unfolded fold applications -> their stepped values
}

// stream ties a read-only byte slice to a ghost sequence: slice[j] == S[base+j].
type stream struct {
	elemKey string
	arr     *smt.Term
	off     *smt.Term
	seq     SeqV
	base    *smt.Term
}

type roArr struct {
	elemKey string
	arr     *smt.Term
}

func (s *State) clone() *State {
	t := &State{fr: s.fr.clone(), epoch: s.epoch, pc: s.pc, alloc: s.alloc, entry: s.entry, pure: s.pure}
	t.cellVals = make(map[*Cell]Value, len(s.cellVals))
	for k, v := range s.cellVals {
		t.cellVals[k] = v
	}
	t.heaps = make(map[string]*smt.Term, len(s.heaps))
	for k, v := range s.heaps {
		t.heaps[k] = v
	}
	t.labels = append([]string(nil), s.labels...)
	t.facts = make(map[*smt.Term]bool, len(s.facts))
	for k, v := range s.facts {
		t.facts[k] = v
	}
	t.globals = make(map[*ssa.Global]Value, len(s.globals))
	for k, v := range s.globals {
		t.globals[k] = v
	}
	t.ro = s.ro
	t.streams = s.streams
	if len(s.rw) > 0 {
		t.rw = make(map[*smt.Term]*smt.Term, len(s.rw))
		for k, v := range s.rw {
			t.rw[k] = v
		}
	}
	t.nonnil = make(map[*smt.Term]bool, len(s.nonnil))
	for k, v := range s.nonnil {
		t.nonnil[k] = v
	}
	return t
}

func (s *State) assume(t *smt.Term) {
	if t == smt.True {
		return
	}
	if t.Op == "and" {
		for _, a := range t.Args {
			s.assume(a)
		}
		return
	}
	n := 1
	if s.pc != nil {
		n = s.pc.n + 1
	}
	s.pc = &pcNode{t: t, parent: s.pc, n: n}
	if t == smt.False {
		s.dead = true
	}
}

func (s *State) assumeFacts(ts []*smt.Term) {
	if s.pure {
		return
	}
	for _, t := range ts {
		if s.facts[t] {
			continue
		}
		s.facts[t] = true
		s.assume(t)
	}
}

func (s *State) label(l string) { s.labels = append(s.labels, l) }

// heap returns the current term of the named heap.
func (s *State) heap(name string, sort smt.Sort) *smt.Term {
	if h, ok := s.heaps[name]; ok {
		return h
	}
	h := smt.Var(fmt.Sprintf("%s@%d", name, s.epoch), sort)
	s.heaps[name] = h
	return h
}

func (s *State) setHeap(name string, h *smt.Term) { s.heaps[name] = h }

// havocAll forgets every heap.
func (s *State) havocAll() {
	havocEpoch++
	s.epoch = havocEpoch
	s.heaps = map[string]*smt.Term{}
}

var havocEpoch = 0

func typeKey(t types.Type) string {
	return types.TypeString(t, func(p *types.Package) string {
		path := p.Path()
		if i := strings.LastIndex(path, "/"); i >= 0 {
			path = path[i+1:]
		}
		return path
	})
}

// fieldSuffix renders an index path from base as ".a.b" and returns the type at the end.
func fieldSuffix(base types.Type, path []int) (string, types.Type) {
	t := base
	var sb strings.Builder
	for _, i := range path {
		st, ok := t.Underlying().(*types.Struct)
		if !ok {
			panic(unsupported("field path through non-struct " + t.String()))
		}
		f := st.Field(i)
		sb.WriteByte('.')
		sb.WriteString(f.Name())
		t = f.Type()
	}
	return sb.String(), t
}

func fieldHeapName(base types.Type, suffix string) string {
	return "F:" + typeKey(base) + ":" + suffix
}

func elemHeapName(elem types.Type, suffix string) string {
	return "E:" + typeKey(elem) + ":" + suffix
}

// loadField reads the value at ref.path (heap object).
func (s *State) loadField(base types.Type, path []int, ref *smt.Term) Value {
	suf, t := fieldSuffix(base, path)
	ls := leavesOf(t)
	ts := make([]*smt.Term, len(ls))
	for i, l := range ls {
		h := s.heap(fieldHeapName(base, suf+l.Suffix), smt.ArrayOf(l.Sort))
		ts[i] = smt.Select(h, ref)
	}
	v := fromLeaves(t, ts)
	s.assumeFacts(typeFacts(t, v))
	s.assumeFacts(allocFacts(v, s.alloc))
	recordRangeDeep(t, v)
	return v
}

// allocFacts: every id reachable from the heap has been allocated.
func allocFacts(v Value, alloc *smt.Term) []*smt.Term {
	switch x := v.(type) {
	case SliceV:
		return []*smt.Term{smt.Lt(x.Arr, alloc)}
	case RefV:
		return []*smt.Term{smt.Lt(x.T, alloc)}
	case PtrV:
		if x.Ref != nil {
			return []*smt.Term{smt.Lt(x.Ref, alloc)}
		}
	case StructV:
		var out []*smt.Term
		for _, f := range x.Fields {
			out = append(out, allocFacts(f, alloc)...)
		}
		return out
	}
	return nil
}

func (s *State) storeField(base types.Type, path []int, ref *smt.Term, v Value) {
	suf, t := fieldSuffix(base, path)
	ls := leavesOf(t)
	ts := toLeaves(t, v)
	for i, l := range ls {
		name := fieldHeapName(base, suf+l.Suffix)
		h := s.heap(name, smt.ArrayOf(l.Sort))
		s.setHeap(name, smt.Store(h, ref, ts[i]))
	}
}

func (s *State) isRO(elemKey string, arr *smt.Term) bool {
	for _, r := range s.ro {
		if r.elemKey == elemKey && r.arr == arr {
			return true
		}
	}
	return false
}

// loadElem reads element idx (absolute index in the backing array) of array arr.
func (s *State) loadElem(elem types.Type, path []int, arr, idx *smt.Term) Value {
	suf, t := fieldSuffix(elem, path)
	ls := leavesOf(t)
	ts := make([]*smt.Term, len(ls))
	ek := typeKey(elem)
	for _, sm := range s.streams {
		if sm.elemKey == ek && sm.arr == arr && len(ls) == 1 {
			r := smt.Select(sm.seq.Arr, smt.Add(sm.base, smt.Sub(idx, sm.off)))
			v := fromLeaves(t, []*smt.Term{r})
			s.assumeFacts(typeFacts(t, v))
			recordRangeDeep(t, v)
			return v
		}
	}
	for i, l := range ls {
		name := elemHeapName(elem, suf+l.Suffix)
		var h *smt.Term
		if s.isRO(ek, arr) {
			h = smt.Var(fmt.Sprintf("%s@%d", name, 0), smt.ArrayOf(smt.ArrayOf(l.Sort)))
		} else {
			h = s.heap(name, smt.ArrayOf(smt.ArrayOf(l.Sort)))
		}
		ts[i] = smt.Select(smt.Select(h, arr), idx)
	}
	v := fromLeaves(t, ts)
	s.assumeFacts(typeFacts(t, v))
	s.assumeFacts(allocFacts(v, s.alloc))
	return v
}

func (s *State) storeElem(elem types.Type, path []int, arr, idx *smt.Term, v Value) {
	suf, t := fieldSuffix(elem, path)
	ls := leavesOf(t)
	ts := toLeaves(t, v)
	for i, l := range ls {
		name := elemHeapName(elem, suf+l.Suffix)
		h := s.heap(name, smt.ArrayOf(smt.ArrayOf(l.Sort)))
		s.setHeap(name, smt.Store(h, arr, smt.Store(smt.Select(h, arr), idx, ts[i])))
	}
}

// newArrayID allocates a fresh backing-array / object id.
func (s *State) newID() *smt.Term {
	id := s.alloc
	s.alloc = smt.Add(s.alloc, smt.IntC(1))
	return id
}

// getPath navigates into a structured value.
func getPath(v Value, path []int) Value {
	for _, i := range path {
		sv, ok := v.(StructV)
		if !ok {
			panic(unsupported(fmt.Sprintf("path into %T", v)))
		}
		v = sv.Fields[i]
	}
	return v
}

func setPath(v Value, path []int, nv Value) Value {
	if len(path) == 0 {
		return nv
	}
	sv, ok := v.(StructV)
	if !ok {
		panic(unsupported(fmt.Sprintf("path into %T", v)))
	}
	r := StructV{Typ: sv.Typ, Fields: append([]Value(nil), sv.Fields...)}
	r.Fields[path[0]] = setPath(sv.Fields[path[0]], path[1:], nv)
	return r
}
