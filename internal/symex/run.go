package symex

import (
	"math/big"
	"fmt"
	"go/token"
	"go/types"
	"strings"

	"golang.org/x/tools/go/ssa"

	"verif/internal/smt"
)

// execBlock runs from instruction idx of block b to the end of the function,
// returning the outcomes of all paths.
func (e *Engine) execBlock(st *State, b *ssa.BasicBlock, idx int) []outcome {
	for {
		if st.dead {
			return nil
		}
		if idx == 0 && e.cur != nil && e.cur.region != nil && st.fr.parent == nil && e.pure == 0 {
			if ci, ok := e.cur.children[b]; ok && b != e.cur.region.entry {
				return []outcome{{st: st, child: ci}}
			}
			if !e.cur.region.blocks[b] {
				return []outcome{{st: st, left: true}}
			}
		}
		if idx == 0 && e.cur != nil && e.cur.region == nil && e.cur.wholeEntries != nil && st.fr.parent == nil && e.pure == 0 {
			if ri, ok := e.cur.wholeEntries[b]; ok {
				// the assumptions of a parentless region are obligations of the whole-function pass
				penv := e.funcEnv(st)
				for _, a := range ri.r.Assumes {
					e.addOblig(st, "region-pre", ri.r.Name+" "+clauseLabel(a), propsOr(a.Props, "SAFETY"), e.evalBool(penv, a.Expr), st.fr.fn.Pos())
				}
			}
		}
		if idx == 0 {
			// loop header handling
			if li := e.cur.loopsOf(st.fr.fn)[b]; li != nil {
				cont, states := e.atLoopHeader(st, li)
				if !cont {
					return nil
				}
				if len(states) > 1 {
					var outs []outcome
					for _, s2 := range states {
						outs = append(outs, e.execBlockNoHeader(s2, b)...)
					}
					return outs
				}
				st = states[0]
			}
			e.leaveLoops(st, b)
		}
		return e.execInstrs(st, b, idx)
	}
}

func (e *Engine) execBlockNoHeader(st *State, b *ssa.BasicBlock) []outcome {
	e.leaveLoops(st, b)
	return e.execInstrs(st, b, 0)
}

// leaveLoops drops active loops whose body does not contain b.
func (e *Engine) leaveLoops(st *State, b *ssa.BasicBlock) {
	loops := e.cur.loopsOf(st.fr.fn)
	for h := range st.fr.active {
		if li := loops[h]; li != nil && !li.body[b] {
			delete(st.fr.active, h)
		}
	}
}

func (c *verifyCtx) loopsOf(fn *ssa.Function) map[*ssa.BasicBlock]*loopInfo {
	if fn == c.fn {
		return c.loops
	}
	if l, ok := c.inlLoops[fn]; ok {
		return l
	}
	if c.inlLoops == nil {
		c.inlLoops = map[*ssa.Function]map[*ssa.BasicBlock]*loopInfo{}
	}
	l := findLoops(fn)
	c.inlLoops[fn] = l
	return l
}

func (e *Engine) execInstrs(st *State, b *ssa.BasicBlock, idx int) []outcome {
	for i := idx; i < len(b.Instrs); i++ {
		if st.dead {
			return nil
		}
		instr := b.Instrs[i]
		switch in := instr.(type) {
		case *ssa.If:
			return e.execIf(st, b, in)
		case *ssa.Jump:
			st.fr.prev = b
			return e.execBlock(st, b.Succs[0], 0)
		case *ssa.Return:
			var res Value
			switch len(in.Results) {
			case 0:
			case 1:
				res = e.get(st, in.Results[0])
			default:
				t := make(TupleV, len(in.Results))
				for k, r := range in.Results {
					t[k] = e.get(st, r)
				}
				res = t
			}
			return []outcome{{st: st, result: res}}
		case *ssa.Panic:
			return e.execPanic(st, in)
		case *ssa.Call:
			// calls may fork (inlined callees)
			outs := e.execCall(st, in.Common(), in, in.Pos())
			var all []outcome
			for _, o := range outs {
				if o.panics {
					all = append(all, o)
					continue
				}
				if in.Type() != nil && o.result != nil {
					o.st.fr.regs[in] = o.result
				}
				all = append(all, e.execInstrs(o.st, b, i+1)...)
			}
			return all
		default:
			e.execSimple(st, instr)
		}
	}
	panic("block without terminator")
}

func (e *Engine) execPanic(st *State, in *ssa.Panic) []outcome {
	// explicit panic(v): controlled raise
	if e.cur.fc != nil && e.cur.fc.Raises || st.fr.parent != nil {
		return []outcome{{st: st, panics: true, result: e.get(st, in.X)}}
	}
	e.check(st, "unreachable-panic", e.posTag(in.Pos()), []string{"SAFETY"}, smt.False, in.Pos())
	return nil
}

func (e *Engine) execIf(st *State, b *ssa.BasicBlock, in *ssa.If) []outcome {
	c := e.get(st, in.Cond).(BoolV).T
	lblT, lblF := e.branchLabels(b, in)
	st.fr.prev = b
	if c == smt.True {
		if lblT != "" && strings.HasPrefix(lblT, "case ") {
			st.label(lblT)
		}
		return e.execBlock(st, b.Succs[0], 0)
	}
	if c == smt.False {
		return e.execBlock(st, b.Succs[1], 0)
	}
	e.Paths++
	if e.Paths > e.MaxPaths {
		panic(unsupported(fmt.Sprintf("path limit %d exceeded", e.MaxPaths)))
	}
	s2 := st.clone()
	st.assume(c)
	var outs []outcome
	if x, vals := e.smallPreimage(c); x != nil {
		// a table class with few members: one path per member, so that the read byte is a constant on each
		for _, v := range vals {
			sv := st.clone()
			eq := smt.Eq(x, smt.IntC(v))
			sv.assume(eq)
			e.refineFromTable(sv, eq)
			if sv.dead {
				continue
			}
			if lblT != "" {
				sv.label(lblT)
			}
			sv.label(fmt.Sprintf("byte=%d", v))
			outs = append(outs, e.guarded(sv, func() []outcome { return e.execBlock(sv, b.Succs[0], 0) })...)
		}
	} else {
		e.refineFromTable(st, c)
		if lblT != "" {
			st.label(lblT)
		}
		outs = e.guarded(st, func() []outcome { return e.execBlock(st, b.Succs[0], 0) })
	}
	s2.assume(smt.Not(c))
	if lblF != "" {
		s2.label(lblF)
	}
	outs = append(outs, e.guarded(s2, func() []outcome { return e.execBlock(s2, b.Succs[1], 0) })...)
	return outs
}

// smallPreimage: the condition is tbl(x) == c for a read x and the class has 2..forkbytes members.
func (e *Engine) smallPreimage(c *smt.Term) (*smt.Term, []int64) {
	if e.cur == nil || e.cur.fc == nil || e.cur.fc.Opts["forkbytes"] == "" || e.pure > 0 {
		return nil, nil
	}
	max := 0
	fmt.Sscanf(e.cur.fc.Opts["forkbytes"], "%d", &max)
	if c.Op != "=" {
		return nil, nil
	}
	a, b := c.Args[0], c.Args[1]
	if a.IsConst() {
		a, b = b, a
	}
	if !b.IsConst() || a.Op != "app" || len(a.Args) != 1 || a.Args[0].Op != "select" || !b.Val.IsInt64() {
		return nil, nil
	}
	d, ok := smt.FunDefs[a.Name]
	if !ok || d.Table == nil {
		return nil, nil
	}
	var pre []int64
	for i, v := range d.Table {
		if v == b.Val.Int64() {
			pre = append(pre, int64(i))
		}
	}
	if len(pre) < 2 || len(pre) > max {
		return nil, nil
	}
	return a.Args[0], pre
}

// refineFromTable: after assuming a branch condition, learn concrete values:
// tbl(x) == c with a single preimage gives x; (select ...) == const gives the
// read byte. The values are substituted into the state and the pending
// unfolding hypotheses of the active loops are re-stated in simplified form.
func (e *Engine) refineFromTable(st *State, c *smt.Term) {
	sub := map[*smt.Term]*smt.Term{}
	var visit func(c *smt.Term)
	visit = func(c *smt.Term) {
		if c.Op == "and" {
			for _, a := range c.Args {
				visit(a)
			}
			return
		}
		if c.Op != "=" {
			return
		}
		a, b := c.Args[0], c.Args[1]
		if a.IsConst() {
			a, b = b, a
		}
		if !b.IsConst() || a.IsConst() {
			return
		}
		if a.Op == "select" {
			sub[a] = b
			return
		}
		if a.Op != "app" || len(a.Args) != 1 || a.Args[0].IsConst() {
			return
		}
		d, ok := smt.FunDefs[a.Name]
		if !ok || d.Table == nil || !b.Val.IsInt64() {
			return
		}
		var pre []int64
		for i, v := range d.Table {
			if v == b.Val.Int64() {
				pre = append(pre, int64(i))
			}
		}
		if len(pre) == 1 {
			v := smt.IntC(pre[0])
			st.assume(smt.Eq(a.Args[0], v))
			sub[a.Args[0]] = v
		} else if len(pre) > 1 && b.Val.Sign() != 0 {
			// the members of the class lie in an interval (the class value is not the out-of-range default)
			st.assume(smt.Le(smt.IntC(pre[0]), a.Args[0]))
			st.assume(smt.Le(a.Args[0], smt.IntC(pre[len(pre)-1])))
		}
	}
	visit(c)
	if len(sub) == 0 {
		return
	}
	e.substState(st, sub)
	for k, v := range st.rw {
		st.rw[k] = smt.Subst(v, sub)
	}
	for fr := st.fr; fr != nil; fr = fr.parent {
		for h, act := range fr.active {
			changed := false
			nu := make([]*smt.Term, len(act.uses))
			for i, u := range act.uses {
				nu[i] = smt.Subst(u, sub)
				if nu[i] != u {
					changed = true
					st.assume(nu[i])
				}
			}
			if changed {
				na := *act
				na.uses = nu
				fr.active[h] = &na
			}
		}
	}
}

// guarded runs one branch; a construct outside the subset fails that path only.
func (e *Engine) guarded(st *State, f func() []outcome) (outs []outcome) {
	if e.pure > 0 {
		return f()
	}
	defer func() {
		if r := recover(); r != nil {
			u, ok := r.(Unsupported)
			if !ok {
				panic(r)
			}
			if strings.Contains(u.Msg, "path limit") {
				panic(r)
			}
			e.cur.unsupp = append(e.cur.unsupp, u.Msg)
			e.Obligs = append(e.Obligs, &Oblig{Name: e.cur.name(st, "subset", ""), Kind: "subset", Props: []string{"SAFETY"}, Func: funcDisplay(e.cur.fn), Goal: smt.False, pc: st.pc, Note: u.Error()})
			outs = nil
		}
	}()
	return f()
}

// branchLabels names the two directions of a branch.
func (e *Engine) branchLabels(b *ssa.BasicBlock, in *ssa.If) (string, string) {
	txt := e.exprText(condPos(in.Cond))
	switch {
	case b.Succs[0].Comment == "switch.body" || b.Succs[0].Comment == "typeswitch.body":
		if bo, ok := in.Cond.(*ssa.BinOp); ok && bo.Op == token.EQL {
			// case expression text at the BinOp position
			if txt != "" {
				return "case " + txt, ""
			}
		}
		if txt != "" {
			return "case " + txt, ""
		}
		return "case#" + fmt.Sprint(b.Succs[0].Index), ""
	case b.Comment == "rangeindex.loop" || b.Comment == "rangeiter.loop":
		return "range:in", "range:done"
	case b.Comment == "for.loop":
		return "for:in", "for:done"
	}
	if txt == "" {
		txt = "b" + fmt.Sprint(b.Index)
	}
	return txt + ":T", txt + ":F"
}

// execSimple executes a non-terminator, non-call instruction.
func (e *Engine) execSimple(st *State, instr ssa.Instruction) {
	fr := st.fr
	switch in := instr.(type) {
	case *ssa.DebugRef:
	case *ssa.Alloc:
		et := in.Type().(*types.Pointer).Elem()
		if at, ok := et.Underlying().(*types.Array); ok {
			// arrays (varargs buffers) live in the element heap
			id := st.newID()
			st.assume(smt.Lt(smt.IntC(0), id))
			st.nonnil[id] = true
			for _, l := range leavesOf(at.Elem()) {
				name := elemHeapName(at.Elem(), l.Suffix)
				h := st.heap(name, smt.ArrayOf(smt.ArrayOf(l.Sort)))
				st.setHeap(name, smt.Store(h, id, smt.ConstArr(smt.ArrayOf(l.Sort), zeroLeaf(at.Elem(), l))))
			}
			n := smt.IntC(at.Len())
			sv := SliceV{Arr: id, Off: smt.IntC(0), Len: n, Cap: n, Elem: at.Elem()}
			fr.regs[in] = PtrV{Slice: &sv, IsArr: true, Elem: et}
			return
		}
		if in.Heap && shapeOf(et) == shStruct && !e.localOnly(in) {
			// heap object
			ref := st.newID()
			st.assume(smt.Lt(smt.IntC(0), ref))
			st.nonnil[ref] = true
			p := PtrV{Ref: ref, Base: et, Elem: et}
			st.storeField(et, nil, ref, zeroValue(et))
			fr.regs[in] = p
			return
		}
		c := newCell(in.Comment, et)
		fr.cells[in] = c
		fr.cellOrder = append(fr.cellOrder, in)
		st.cellVals[c] = zeroValue(et)
		fr.regs[in] = PtrV{Cell: c, Elem: et}
	case *ssa.Store:
		p := e.get(st, in.Addr).(PtrV)
		e.store(st, p, e.get(st, in.Val), in.Pos())
	case *ssa.UnOp:
		x := e.get(st, in.X)
		switch in.Op {
		case token.MUL:
			if w, ok := x.(IfaceWordsV); ok && w.Idx != nil {
				// the type word (0) and the data word (1) are functions of the interface value
				av := e.load(st, w.Ptr, in.Pos()).(AnyV)
				e.note("interface header read through unsafe.Pointer: type/data word modelled as a function of the interface value (A-UNSAFE)")
				smt.DeclareFun("any_typeword", []smt.Sort{smt.Any}, smt.Int)
				smt.DeclareFun("any_dataword", []smt.Sort{smt.Any}, smt.Int)
				fr.regs[in] = IntV{smt.Ite(smt.Eq(w.Idx, smt.IntC(0)), smt.App("any_typeword", smt.Int, av.T), smt.App("any_dataword", smt.Int, av.T))}
				st.assume(smt.Le(smt.IntC(0), fr.regs[in].(IntV).T))
				st.assume(smt.Le(fr.regs[in].(IntV).T, smt.BigC(maxUint64)))
				break
			}
			fr.regs[in] = e.load(st, x.(PtrV), in.Pos())
		case token.NOT:
			fr.regs[in] = BoolV{smt.Not(x.(BoolV).T)}
		case token.SUB:
			switch v := x.(type) {
			case IntV:
				fr.regs[in] = IntV{e.intBinOp(st, token.SUB, in.Type(), smt.IntC(0), v.T, in.Type(), in.Pos())}
			case FloatV:
				fr.regs[in] = FloatV{smt.App("f64_neg", smt.F64, v.T)}
			default:
				panic(unsupported("negation"))
			}
		case token.XOR:
			v := x.(IntV)
			// ^x = -x-1 (two's complement) for signed; for unsigned max-x
			if isSigned(in.Type()) {
				fr.regs[in] = IntV{smt.Sub(smt.Neg(v.T), smt.IntC(1))}
			} else {
				_, hi := intRange(in.Type())
				fr.regs[in] = IntV{smt.Sub(smt.BigC(hi), v.T)}
			}
		case token.ARROW:
			r, f := freshValue("recv", in.Type())
			st.assumeFacts(f)
			fr.regs[in] = r
		default:
			panic(unsupported("unop " + in.Op.String()))
		}
	case *ssa.BinOp:
		x, y := e.get(st, in.X), e.get(st, in.Y)
		fr.regs[in] = e.binop(st, in.Op, x, y, in.X.Type(), in.Y.Type(), in.Type(), in.Pos())
	case *ssa.FieldAddr:
		p := e.get(st, in.X).(PtrV)
		ft := in.Type().(*types.Pointer).Elem()
		q := p
		q.Path = append(append([]int(nil), p.Path...), in.Field)
		q.Elem = ft
		if p.Ref != nil {
			e.nonNil(st, p.Ref, in.Pos())
			e.assumeTypeInv(st, p)
		}
		fr.regs[in] = q
	case *ssa.Field:
		x := e.get(st, in.X)
		fr.regs[in] = getPath(x, []int{in.Field})
	case *ssa.IndexAddr:
		x := e.get(st, in.X)
		idx := e.get(st, in.Index).(IntV).T
		if w, ok := x.(IfaceWordsV); ok {
			// word k of an interface header (k is 0 or 1 by the array type)
			e.safety(st, "index", smt.And(smt.Le(smt.IntC(0), idx), smt.Lt(idx, smt.IntC(2))), in.Pos())
			w.Idx = idx
			fr.regs[in] = w
			break
		}
		switch s := x.(type) {
		case SliceV:
			e.safety(st, "index", smt.And(smt.Le(smt.IntC(0), idx), smt.Lt(idx, s.Len)), in.Pos())
			sc := s
			fr.regs[in] = PtrV{Slice: &sc, Idx: idx, Elem: s.Elem}
		case PtrV:
			// pointer to array
			if !s.IsArr {
				panic(unsupported("IndexAddr on array pointer"))
			}
			e.safety(st, "index", smt.And(smt.Le(smt.IntC(0), idx), smt.Lt(idx, s.Slice.Len)), in.Pos())
			sc := *s.Slice
			fr.regs[in] = PtrV{Slice: &sc, Idx: idx, Elem: sc.Elem}
		default:
			panic(unsupported(fmt.Sprintf("IndexAddr on %T", x)))
		}
	case *ssa.Index:
		x := e.get(st, in.X)
		idx := e.get(st, in.Index).(IntV).T
		switch s := x.(type) {
		case StrV:
			e.safety(st, "index", smt.And(smt.Le(smt.IntC(0), idx), smt.Lt(idx, s.Len)), in.Pos())
			r := strIndex(s, idx)
			if !r.IsConst() {
				st.assumeFacts([]*smt.Term{smt.Le(smt.IntC(0), r), smt.Le(r, smt.IntC(255))})
				recordRange(in.Type(), IntV{r})
			}
			fr.regs[in] = IntV{r}
		default:
			panic(unsupported(fmt.Sprintf("Index on %T", x)))
		}
	case *ssa.Lookup:
		x := e.get(st, in.X)
		switch s := x.(type) {
		case StrV:
			idx := e.get(st, in.Index).(IntV).T
			e.safety(st, "index", smt.And(smt.Le(smt.IntC(0), idx), smt.Lt(idx, s.Len)), in.Pos())
			r := strIndex(s, idx)
			if !r.IsConst() {
				st.assumeFacts([]*smt.Term{smt.Le(smt.IntC(0), r), smt.Le(r, smt.IntC(255))})
				recordRange(in.Type(), IntV{r})
			}
			fr.regs[in] = IntV{r}
		case RefV:
			// map lookup: opaque contents
			mt := in.X.Type().Underlying().(*types.Map)
			v, f := freshValue("mapget", mt.Elem())
			st.assumeFacts(f)
			if in.CommaOk {
				ok := smt.Fresh("mapok", smt.Bool)
				st.assume(smt.Implies(smt.Eq(s.T, smt.IntC(0)), smt.Not(ok)))
				fr.regs[in] = TupleV{v, BoolV{ok}}
			} else {
				fr.regs[in] = v
			}
		default:
			panic(unsupported(fmt.Sprintf("Lookup on %T", x)))
		}
	case *ssa.Slice:
		e.execSlice(st, in)
	case *ssa.MakeSlice:
		n := e.get(st, in.Len).(IntV).T
		c := e.get(st, in.Cap).(IntV).T
		e.safety(st, "make-neg", smt.And(smt.Le(smt.IntC(0), n), smt.Le(n, c)), in.Pos())
		et := in.Type().Underlying().(*types.Slice).Elem()
		id := st.newID()
		st.assume(smt.Lt(smt.IntC(0), id))
		// zeroed contents
		for _, l := range leavesOf(et) {
			name := elemHeapName(et, l.Suffix)
			h := st.heap(name, smt.ArrayOf(smt.ArrayOf(l.Sort)))
			zl := zeroLeaf(et, l)
			st.setHeap(name, smt.Store(h, id, smt.ConstArr(smt.ArrayOf(l.Sort), zl)))
		}
		st.assume(smt.Le(c, smt.BigC(maxLen)))
		fr.regs[in] = SliceV{Arr: id, Off: smt.IntC(0), Len: n, Cap: c, Elem: et}
	case *ssa.MakeMap:
		id := st.newID()
		st.assume(smt.Lt(smt.IntC(0), id))
		fr.regs[in] = RefV{T: id, Typ: in.Type()}
	case *ssa.MakeChan:
		id := st.newID()
		st.assume(smt.Lt(smt.IntC(0), id))
		fr.regs[in] = RefV{T: id, Typ: in.Type()}
	case *ssa.MakeClosure:
		id := st.newID()
		st.assume(smt.Lt(smt.IntC(0), id))
		fr.regs[in] = RefV{T: id, Typ: in.Type()}
	case *ssa.MapUpdate:
		m := e.get(st, in.Map).(RefV)
		e.safety(st, "nil-map-write", smt.Ne(m.T, smt.IntC(0)), in.Pos())
	case *ssa.MakeInterface:
		x := e.get(st, in.X)
		fr.regs[in] = AnyV{toAny(in.X.Type(), x)}
	case *ssa.ChangeInterface:
		fr.regs[in] = e.get(st, in.X)
	case *ssa.ChangeType:
		fr.regs[in] = e.convert(st, e.get(st, in.X), in.X.Type(), in.Type(), in.Pos())
	case *ssa.Convert:
		if v, ok := e.ifaceWords(st, in); ok {
			fr.regs[in] = v
			break
		}
		fr.regs[in] = e.convert(st, e.get(st, in.X), in.X.Type(), in.Type(), in.Pos())
	case *ssa.TypeAssert:
		e.execTypeAssert(st, in)
	case *ssa.Extract:
		t := e.get(st, in.Tuple).(TupleV)
		fr.regs[in] = t[in.Index]
	case *ssa.Phi:
		for k, p := range in.Block().Preds {
			if p == fr.prev {
				fr.regs[in] = e.get(st, in.Edges[k])
				return
			}
		}
		panic("phi: predecessor not found")
	case *ssa.Range:
		x := e.get(st, in.X)
		_, isStr := x.(StrV)
		fr.regs[in] = IterV{X: x, IsStr: isStr, Idx: smt.IntC(0)}
	case *ssa.Next:
		e.execNext(st, in)
	case *ssa.Send:
		// external effect only
	case *ssa.Defer:
		fr.defers = append(fr.defers, in)
	case *ssa.RunDefers:
		e.runDefers(st)
	case *ssa.Go:
		panic(unsupported("go statement"))
	case *ssa.Select:
		panic(unsupported("select statement"))
	case *ssa.SliceToArrayPointer:
		panic(unsupported("slice to array pointer"))
	default:
		panic(unsupported(fmt.Sprintf("instruction %T", instr)))
	}
}

func zeroLeaf(t types.Type, l leaf) *smt.Term {
	ls := leavesOf(t)
	zs := toLeaves(t, zeroValue(t))
	for i := range ls {
		if ls[i].Suffix == l.Suffix {
			return zs[i]
		}
	}
	panic("zeroLeaf")
}

// localOnly reports whether a heap-flagged alloc never escapes through a
// store or call (then a cell is an adequate model).
func (e *Engine) localOnly(a *ssa.Alloc) bool {
	for _, r := range *a.Referrers() {
		switch x := r.(type) {
		case *ssa.Store:
			if x.Val == a {
				return false
			}
		case *ssa.UnOp, *ssa.FieldAddr, *ssa.DebugRef:
		default:
			return false
		}
	}
	return true
}

func (e *Engine) execSlice(st *State, in *ssa.Slice) {
	x := e.get(st, in.X)
	var lo, hi, mx *smt.Term
	if in.Low != nil {
		lo = e.get(st, in.Low).(IntV).T
	} else {
		lo = smt.IntC(0)
	}
	if p, ok := x.(PtrV); ok && p.IsArr {
		x = *p.Slice
	}
	switch s := x.(type) {
	case SliceV:
		if in.High != nil {
			hi = e.get(st, in.High).(IntV).T
		} else {
			hi = s.Len
		}
		if in.Max != nil {
			mx = e.get(st, in.Max).(IntV).T
		} else {
			mx = s.Cap
		}
		e.safety(st, "slice-bounds", smt.And(smt.Le(smt.IntC(0), lo), smt.Le(lo, hi), smt.Le(hi, mx), smt.Le(mx, s.Cap)), in.Pos())
		st.fr.regs[in] = SliceV{Arr: s.Arr, Off: smt.Add(s.Off, lo), Len: smt.Sub(hi, lo), Cap: smt.Sub(mx, lo), Elem: s.Elem}
	case StrV:
		if in.High != nil {
			hi = e.get(st, in.High).(IntV).T
		} else {
			hi = s.Len
		}
		e.safety(st, "slice-bounds", smt.And(smt.Le(smt.IntC(0), lo), smt.Le(lo, hi), smt.Le(hi, s.Len)), in.Pos())
		st.fr.regs[in] = StrV{Arr: s.Arr, Off: smt.Add(s.Off, lo), Len: smt.Sub(hi, lo)}
	default:
		panic(unsupported(fmt.Sprintf("Slice of %T", x)))
	}
}

func (e *Engine) execTypeAssert(st *State, in *ssa.TypeAssert) {
	x := e.get(st, in.X).(AnyV)
	var ok *smt.Term
	var val Value
	if types.IsInterface(in.AssertedType) {
		it := in.AssertedType.Underlying().(*types.Interface)
		if it.NumMethods() == 0 {
			ok = smt.Ne(x.T, anyNil())
		} else {
			name := "impl_" + smt.Mangle(typeKey(in.AssertedType))
			if _, has := smt.FunDecls[name]; !has {
				smt.DeclareFun(name, []smt.Sort{smt.Int}, smt.Bool)
			}
			ok = smt.And(smt.Ne(x.T, anyNil()), e.implFacts(st, name, in.AssertedType, x.T))
		}
		val = x
	} else {
		ok = anyIs(x.T, in.AssertedType)
		val = fromAny(x.T, in.AssertedType)
	}
	if in.CommaOk {
		okv := ok
		// value is zero when !ok
		z := zeroValue(in.AssertedType)
		var v Value
		if okv == smt.True {
			v = val
		} else {
			v = mergeValues(okv, val, z)
		}
		// a dynamic payload is a well-typed value of its type
		for _, f := range typeFacts(in.AssertedType, val) {
			st.assumeFacts([]*smt.Term{smt.Implies(okv, f)})
		}
		st.fr.regs[in] = TupleV{v, BoolV{okv}}
		return
	}
	e.safety(st, "type-assert", ok, in.Pos())
	st.assumeFacts(typeFacts(in.AssertedType, val))
	st.fr.regs[in] = val
}

// implFacts: whether the dynamic type of a implements the interface; decided
// statically for known type ids, uninterpreted otherwise.
func (e *Engine) implFacts(st *State, name string, iface types.Type, a *smt.Term) *smt.Term {
	tid := smt.App("any_tid", smt.Int, a)
	if a.Op == "app" && smt.IsCtor(a.Name) && len(a.Args) > 0 && a.Args[0].IsConst() {
		t := typeByID[a.Args[0].Int64()]
		if t != nil {
			return smt.BoolC(types.Implements(t, iface.Underlying().(*types.Interface)))
		}
	}
	// axioms for every known type id
	for id, t := range typeByID {
		impl := types.Implements(t, iface.Underlying().(*types.Interface))
		f := smt.Eq(smt.App(name, smt.Bool, smt.IntC(id)), smt.BoolC(impl))
		if !st.facts[f] {
			st.facts[f] = true
			st.assume(f)
		}
	}
	return smt.App(name, smt.Bool, tid)
}

func (e *Engine) execNext(st *State, in *ssa.Next) {
	it := e.get(st, in.Iter).(IterV)
	if in.IsString {
		panic(unsupported("range over string"))
	}
	// map iteration: ok is nondeterministic, key/value unconstrained
	tt := in.Type().(*types.Tuple)
	ok := smt.Fresh("next_ok", smt.Bool)
	res := TupleV{BoolV{ok}}
	for i := 1; i < tt.Len(); i++ {
		t := tt.At(i).Type()
		if b, isb := t.(*types.Basic); isb && b.Kind() == types.Invalid {
			res = append(res, nil)
			continue
		}
		v, f := freshValue("next", t)
		st.assumeFacts(f)
		res = append(res, v)
	}
	if r, isRef := it.X.(RefV); isRef {
		st.assume(smt.Implies(smt.Eq(r.T, smt.IntC(0)), smt.Not(ok)))
	}
	st.fr.regs[in] = res
}

func (e *Engine) runDefers(st *State) {
	fr := st.fr
	for i := len(fr.defers) - 1; i >= 0; i-- {
		d := fr.defers[i]
		outs := e.execCall(st, d.Common(), d, d.Pos())
		if len(outs) != 1 || outs[0].panics {
			panic(unsupported("deferred call with multiple outcomes"))
		}
		*st = *outs[0].st
	}
	fr.defers = nil
}

// callName is the short name of a callee for "at call" matching.
func callName(c *ssa.CallCommon) string {
	if c.IsInvoke() {
		return c.Method.Name()
	}
	switch f := c.Value.(type) {
	case *ssa.Function:
		return f.Name()
	case *ssa.Builtin:
		return f.Name()
	}
	return "<dynamic>"
}

func recvString(t types.Type) string {
	s := types.TypeString(t, nil)
	if i := strings.LastIndex(s, "/"); i >= 0 {
		s = s[i+1:]
	}
	return s
}

// IfaceWordsV is (*[2]uintptr)(unsafe.Pointer(&iface)): a view of an interface header (Idx set: the address of one word).
type IfaceWordsV struct {
	Ptr PtrV
	Idx *smt.Term
}

var maxUint64 = new(big.Int).SetUint64(^uint64(0))

// ifaceWords recognises the two conversions of the idiom (*[2]uintptr)(unsafe.Pointer(&x)) for an interface variable x.
func (e *Engine) ifaceWords(st *State, in *ssa.Convert) (Value, bool) {
	from, to := in.X.Type(), in.Type()
	if b, ok := to.Underlying().(*types.Basic); ok && b.Kind() == types.UnsafePointer {
		if p, ok := from.Underlying().(*types.Pointer); ok {
			if _, ok := p.Elem().Underlying().(*types.Interface); ok {
				if pv, ok := e.get(st, in.X).(PtrV); ok {
					return IfaceWordsV{Ptr: pv}, true
				}
			}
		}
		return nil, false
	}
	if b, ok := from.Underlying().(*types.Basic); ok && b.Kind() == types.UnsafePointer {
		if w, ok := e.get(st, in.X).(IfaceWordsV); ok {
			if p, ok := to.Underlying().(*types.Pointer); ok {
				if a, ok := p.Elem().Underlying().(*types.Array); ok && a.Len() == 2 {
					return w, true
				}
			}
		}
	}
	return nil, false
}
