package symex

import (
	"go/token"
	"sort"
	"fmt"
	"go/types"
	"strings"

	"golang.org/x/tools/go/ssa"

	"verif/internal/cexpr"
	"verif/internal/contract"
	"verif/internal/smt"
)

// atLoopHeader handles arrival at a loop header. It returns cont=false when
// the path ends here (back edge), otherwise the states to continue with.
func (e *Engine) atLoopHeader(st *State, li *loopInfo) (bool, []*State) {
	fr := st.fr
	pos := li.header.Instrs[0].Pos()
	top := fr.parent == nil
	lc := li.lc
	if !top {
		lc = nil
	}
	if lc == nil && top && e.cur.region != nil && len(e.cur.region.r.Asserts) == 0 {
		// a region that only checks the entry assumptions of its children: loops are cut with the trivial invariant
		lc = &contract.Loop{Ordinal: li.ordinal}
		li.lc = lc
	}
	if lc == nil && top && e.cur.fc != nil && e.cur.fc.Opts["sweep"] != "" {
		lc = &contract.Loop{Ordinal: li.ordinal}
		// the sweep template's requires is the object invariant: it holds at every loop head
		for _, r := range e.cur.fc.Requires {
			c := r
			c.Props = propsOr(c.Props, "SAFETY")
			lc.Invariants = append(lc.Invariants, c)
		}
		li.lc = lc
	}
	if lc != nil && li.header.Comment == "rangeindex.loop" && !lc.AutoDone {
		// implicit bounds of the hidden range index
		lc.AutoDone = true
		n, _ := cexpr.Parse("-1 <= $k && $k <= $n - 1")
		lc.Invariants = append([]contract.Clause{{Expr: n, Src: "range index bounds", Label: "range-bounds", Props: []string{"SAFETY"}}}, lc.Invariants...)
	}
	if act, ok := fr.active[li.header]; ok {
		// back edge: invariant preservation and variant decrease
		if lc == nil {
			panic(unsupported(fmt.Sprintf("loop %d of %s has no contract", li.ordinal, fr.fn.Name())))
		}
		env := e.bindRange(e.funcEnv(st), st, li)
		st.label(fmt.Sprintf("loop%d:back", li.ordinal))
		for _, inv := range lc.Invariants {
			if !e.wantClause(inv.Props) {
				continue
			}
			e.addOblig(st, "inv-preserve", clauseLabel(inv), propsOr(inv.Props, "SAFETY"), e.evalBool(env, inv.Expr), pos)
		}
		if top && len(act.frameHeaps) > 0 && !e.cur.modAll {
			e.addOblig(st, "inv-preserve", "frame", []string{"FRAME"}, e.frameFormula(st, act.frameHeaps), pos)
		}
		if lc.Variant != nil && act.variant != nil {
			v := e.evalInt(env, lc.Variant)
			e.addOblig(st, "variant", "decreases", []string{"TERM"}, smt.And(smt.Le(smt.IntC(0), act.variant), smt.Lt(v, act.variant)), pos)
		}
		return false, nil
	}
	if lc == nil {
		if e.pure > 0 {
			panic(unsupported("loop in pure function"))
		}
		panic(unsupported(fmt.Sprintf("loop %d of %s has no contract", li.ordinal, fr.fn.Name())))
	}
	// entry edge
	if li.header.Comment == "rangeindex.loop" {
		// $n: ranged length, $s: ranged slice (loop-invariant registers)
		if iff, ok := li.header.Instrs[len(li.header.Instrs)-1].(*ssa.If); ok {
			if bo, ok := iff.Cond.(*ssa.BinOp); ok {
				if v, ok := fr.regs[bo.Y]; ok {
					fr.lets["$n"] = v
				} else if c, ok := bo.Y.(*ssa.Const); ok {
					fr.lets["$n"] = e.constValue(c)
				}
				fr.lets[fmt.Sprintf("$n#%d", li.ordinal)] = fr.lets["$n"]
			}
			for _, in := range li.header.Succs[0].Instrs {
				if ia, ok := in.(*ssa.IndexAddr); ok {
					if v, ok := fr.regs[ia.X]; ok {
						fr.lets["$s"] = v
						fr.lets[fmt.Sprintf("$s#%d", li.ordinal)] = v
						break
					}
				}
			}
		}
	}
	env := e.bindRange(e.funcEnv(st), st, li)
	for _, l := range lc.Lets {
		fr.lets[l.Name] = e.eval(env, l.Expr)
		env.vars[l.Name] = fr.lets[l.Name]
	}
	saved := append([]string(nil), st.labels...)
	st.label(fmt.Sprintf("loop%d:init", li.ordinal))
	for _, en := range lc.Entries {
		e.addOblig(st, "loop-entry", clauseLabel(en), propsOr(en.Props, "SAFETY"), e.evalBool(env, en.Expr), pos)
	}
	for _, inv := range lc.Invariants {
		if !e.wantClause(inv.Props) {
			continue
		}
		e.addOblig(st, "inv-init", clauseLabel(inv), propsOr(inv.Props, "SAFETY"), e.evalBool(env, inv.Expr), pos)
	}
	st.labels = saved
	st.label(fmt.Sprintf("loop%d", li.ordinal))
	// havoc
	preHeaps := make(map[string]*smt.Term, len(st.heaps))
	for k, v := range st.heaps {
		preHeaps[k] = v
	}
	preState := st.clone()
	na := smt.Fresh("alloc", smt.Int)
	st.assume(smt.Le(st.alloc, na))
	st.alloc = na
	e.havocLoop(st, li)
	var frameHeaps []string
	if top && st.epoch == 0 && !e.cur.modAll {
		for _, name := range smt.SortedKeys(st.heaps) {
			if st.heaps[name] != preHeaps[name] {
				frameHeaps = append(frameHeaps, name)
			}
		}
		if len(frameHeaps) > 0 {
			// the frame so far must hold on arrival ...
			for _, name := range frameHeaps {
				preState.heap(name, st.heaps[name].S)
			}
			preState.labels = append(append([]string(nil), saved...), fmt.Sprintf("loop%d:init", li.ordinal))
			e.addOblig(preState, "inv-init", "frame", []string{"FRAME"}, e.frameFormula(preState, frameHeaps), pos)
			// ... and is assumed for the havoced heaps
			st.assume(e.frameFormula(st, frameHeaps))
		}
	}
	env = e.bindRange(e.funcEnv(st), st, li)
	for _, h := range lc.Havoc {
		e.havocTarget(st, env, h, false)
	}
	env = e.bindRange(e.funcEnv(st), st, li)
	var assumed []*smt.Term
	for _, inv := range lc.Invariants {
		assumed = append(assumed, e.evalBool(env, inv.Expr))
	}
	act := &loopAct{frameHeaps: frameHeaps}
	if lc.Variant != nil {
		act.variant = e.evalInt(env, lc.Variant)
	}
	fr.active[li.header] = act
	if len(lc.Uses) > 0 {
		// the guards of the instances are obligations under the loop invariants
		su := st.clone()
		for _, a := range assumed {
			su.assume(a)
		}
		uenv := e.bindRange(e.funcEnv(su), su, li)
		for _, u := range lc.Uses {
			ut := e.evalBool(uenv, u)
			assumed = append(assumed, ut)
			act.uses = append(act.uses, ut)
		}
		for k, v := range su.rw {
			if st.rw == nil {
				st.rw = map[*smt.Term]*smt.Term{}
			}
			st.rw[k] = v
		}
	}
	if lc.Split != nil {
		var outs []*State
		var covered []*smt.Term
		sv := e.eval(env, lc.Split)
		svi, isInt := sv.(IntV)
		for _, valN := range lc.SplitVals {
			s2 := st.clone()
			env2 := e.bindRange(e.funcEnv(s2), s2, li)
			v := e.eval(env2, valN)
			c := e.valueEq(sv, v, false)
			covered = append(covered, c)
			s2.assume(c)
			if isInt {
				sub := map[*smt.Term]*smt.Term{svi.T: v.(IntV).T}
				for _, a := range assumed {
					s2.assume(smt.Subst(a, sub))
				}
				na := *act
				na.uses = nil
				for _, u := range act.uses {
					na.uses = append(na.uses, smt.Subst(u, sub))
				}
				s2.fr.active[li.header] = &na
				for k, v := range s2.rw {
					s2.rw[k] = smt.Subst(v, sub)
				}
			} else {
				for _, a := range assumed {
					s2.assume(a)
				}
			}
			s2.label(fmt.Sprintf("%s=%s", shortSplit(lc.Split.String()), valN))
			e.propagateEqualities(s2)
			if !s2.dead {
				outs = append(outs, s2)
			}
		}
		// completeness of the split
		rest := st.clone()
		for _, a := range assumed {
			rest.assume(a)
		}
		rest.label("split-complete")
		e.addOblig(rest, "split", "complete", []string{"SAFETY"}, smt.Or(covered...), pos)
		return true, outs
	}
	for _, a := range assumed {
		st.assume(a)
	}
	e.propagateEqualities(st)
	return true, []*State{st}
}

// bindRange makes $k, $n and $s denote the hidden index, length and slice of THIS range loop (loops nest).
func (e *Engine) bindRange(env *Env, st *State, li *loopInfo) *Env {
	if li.header.Comment != "rangeindex.loop" {
		return env
	}
	fr := st.fr
	if v, ok := fr.lets[fmt.Sprintf("$n#%d", li.ordinal)]; ok {
		env.vars["$n"] = v
	}
	if v, ok := fr.lets[fmt.Sprintf("$s#%d", li.ordinal)]; ok {
		env.vars["$s"] = v
	}
	for _, in := range li.header.Instrs {
		if u, ok := in.(*ssa.UnOp); ok && u.Op == token.MUL {
			if a, ok := u.X.(*ssa.Alloc); ok && a.Comment == "rangeindex" {
				if c, ok := fr.cells[a]; ok {
					if v, ok := st.cellVals[c]; ok {
						env.vars["$k"] = v
					}
				}
				break
			}
		}
	}
	return env
}

func shortSplit(s string) string {
	if i := strings.LastIndex(s, "."); i >= 0 {
		return s[i+1:]
	}
	return s
}

// wantClause reports whether a clause tagged with props is to be proved in
// this run (all clauses are always assumed).
func (e *Engine) wantClause(props []string) bool {
	return true
}

// havocLoop forgets everything the loop body may modify.
func (e *Engine) havocLoop(st *State, li *loopInfo) {
	fr := st.fr
	storedCells := map[*ssa.Alloc]bool{}
	type fieldTarget struct {
		base types.Type
		path []int
		root ssa.Value
	}
	var fields []fieldTarget
	elemTypes := map[string]types.Type{}
	havocEverything := false
	var calls []*ssa.CallCommon
	var callInstrs []ssa.Instruction
	globals := map[*ssa.Global]bool{}
	bodyBlocks := make([]*ssa.BasicBlock, 0, len(li.body))
	for b := range li.body {
		bodyBlocks = append(bodyBlocks, b)
	}
	sort.Slice(bodyBlocks, func(i, j int) bool { return bodyBlocks[i].Index < bodyBlocks[j].Index })
	for _, b := range bodyBlocks {
		for _, instr := range b.Instrs {
			switch in := instr.(type) {
			case *ssa.Store:
				e.classifyStore(in.Addr, storedCells, func(base types.Type, path []int, root ssa.Value) {
					fields = append(fields, fieldTarget{base, path, root})
				}, elemTypes, globals)
			case *ssa.Call:
				calls = append(calls, in.Common())
				callInstrs = append(callInstrs, in)
			case *ssa.Defer:
				calls = append(calls, in.Common())
				callInstrs = append(callInstrs, in)
			case *ssa.MapUpdate:
			}
		}
	}
	// calls
	type modTarget struct {
		call *ssa.CallCommon
	}
	for _, c := range calls {
		if c.IsInvoke() {
			continue // A-CB or trusted contract without heap effects on our objects
		}
		switch f := c.Value.(type) {
		case *ssa.Builtin:
			switch f.Name() {
			case "append", "copy":
				if s, ok := c.Args[0].Type().Underlying().(*types.Slice); ok {
					elemTypes[typeKey(s.Elem())] = s.Elem()
				}
			}
		case *ssa.Function:
			if fc, ok := e.Contracts[f]; ok {
				if fc.Inline {
					havocEverything = true // conservative
					continue
				}
				// map callee modifies through the static receiver/argument pointers
				for _, m := range fc.Modifies {
					if !e.staticModifies(st, f, c, m, storedCells, func(base types.Type, path []int, root ssa.Value) {
						fields = append(fields, fieldTarget{base, path, root})
					}, elemTypes) {
						havocEverything = true
					}
				}
			} else if _, ok := e.interceptable(f); ok {
			} else {
				for _, a := range c.Args {
					switch shapeOf(a.Type()) {
					case shPtr, shSlice, shRef, shAny:
						havocEverything = true
					}
				}
			}
		}
	}
	// mutable ghost variables updated by annotated calls in the body
	if fr.parent == nil && e.cur != nil && e.cur.fc != nil && len(e.cur.fc.GhostVars) > 0 {
		setNames := map[string]bool{}
		for _, ci := range callInstrs {
			var cc *ssa.CallCommon
			switch x := ci.(type) {
			case *ssa.Call:
				cc = x.Common()
			case *ssa.Defer:
				cc = x.Common()
			}
			if cc == nil {
				continue
			}
			if ann := e.callAnnotation(st, ci, callName(cc)); ann != nil {
				for _, l := range ann.Sets {
					setNames[l.Name] = true
				}
			}
		}
		for _, name := range smt.SortedKeys(setNames) {
			fr.ghost[name] = IntV{smt.Fresh("ghost_"+name, smt.Int)} // a mathematical integer: no machine range
		}
	}
	if havocEverything {
		e.note(fmt.Sprintf("loop %d of %s: all heaps havoced (opaque callee in body)", li.ordinal, fr.fn.Name()))
		st.havocAll()
		st.globals = map[*ssa.Global]Value{}
	}
	// cells
	storedList := make([]*ssa.Alloc, 0, len(storedCells))
	for a := range storedCells {
		storedList = append(storedList, a)
	}
	sort.Slice(storedList, func(i, j int) bool {
		if storedList[i].Pos() != storedList[j].Pos() {
			return storedList[i].Pos() < storedList[j].Pos()
		}
		return storedList[i].Name() < storedList[j].Name()
	})
	for _, a := range storedList {
		c, ok := fr.cells[a]
		if !ok {
			continue // allocated inside the loop
		}
		if _, has := st.cellVals[c]; !has {
			continue
		}
		v, f := freshValue(a.Comment, c.Typ)
		st.cellVals[c] = v
		st.assumeFacts(f)
		st.assumeFacts(allocFacts(v, st.alloc))
		recordRangeDeep(c.Typ, v)
	}
	if havocEverything {
		return
	}
	globalList := make([]*ssa.Global, 0, len(globals))
	for g := range globals {
		globalList = append(globalList, g)
	}
	sort.Slice(globalList, func(i, j int) bool { return globalList[i].String() < globalList[j].String() })
	for _, g := range globalList {
		gt := g.Type().(*types.Pointer).Elem()
		v, f := freshValue("g:"+g.Name(), gt)
		st.globals[g] = v
		st.assumeFacts(f)
	}
	// field heaps: targeted when the root pointer is a loop-invariant cell
	for _, ft := range fields {
		var ref *smt.Term
		if ft.root != nil {
			if v, ok := e.loopInvariantPtr(st, ft.root, storedCells); ok {
				ref = v
			}
		}
		suf, t := fieldSuffix(ft.base, ft.path)
		for _, l := range leavesOf(t) {
			name := fieldHeapName(ft.base, suf+l.Suffix)
			h := st.heap(name, smt.ArrayOf(l.Sort))
			if ref != nil {
				fv := smt.Fresh(name, l.Sort)
				st.setHeap(name, smt.Store(h, ref, fv))
			} else {
				st.setHeap(name, smt.Fresh(name, smt.ArrayOf(l.Sort)))
			}
		}
	}
	// element heaps: whole heap havoced, read-only arrays restored
	for _, ek := range smt.SortedKeys(elemTypes) {
		et := elemTypes[ek]
		for _, l := range leavesOf(et) {
			name := elemHeapName(et, l.Suffix)
			srt := smt.ArrayOf(smt.ArrayOf(l.Sort))
			nh := smt.Fresh(name, srt)
			st.setHeap(name, nh)
		}
	}
}

func recordRangeDeep(t types.Type, v Value) {
	switch x := v.(type) {
	case IntV:
		recordRange(t, x)
	case StructV:
		st := t.Underlying().(*types.Struct)
		for i := range x.Fields {
			recordRangeDeep(st.Field(i).Type(), x.Fields[i])
		}
	}
}

// classifyStore resolves the target of a store syntactically.
func (e *Engine) classifyStore(addr ssa.Value, cells map[*ssa.Alloc]bool, field func(types.Type, []int, ssa.Value), elems map[string]types.Type, globals map[*ssa.Global]bool) {
	var path []int
	cur := addr
	for {
		switch x := cur.(type) {
		case *ssa.Alloc:
			cells[x] = true
			return
		case *ssa.FieldAddr:
			path = append([]int{x.Field}, path...)
			cur = x.X
			continue
		case *ssa.IndexAddr:
			switch t := x.X.Type().Underlying().(type) {
			case *types.Slice:
				elems[typeKey(t.Elem())] = t.Elem()
			case *types.Pointer:
				if at, ok := t.Elem().Underlying().(*types.Array); ok {
					elems[typeKey(at.Elem())] = at.Elem()
				} else {
					panic(unsupported("store through array pointer"))
				}
			default:
				panic(unsupported("store through array pointer"))
			}
			return
		case *ssa.Global:
			globals[x] = true
			return
		default:
			// a pointer value: heap object of its pointee type
			pt, ok := cur.Type().Underlying().(*types.Pointer)
			if !ok {
				panic(unsupported(fmt.Sprintf("store target %T", cur)))
			}
			field(pt.Elem(), path, cur)
			return
		}
	}
}

// loopInvariantPtr evaluates a pointer root that does not change in the loop.
func (e *Engine) loopInvariantPtr(st *State, root ssa.Value, stored map[*ssa.Alloc]bool) (*smt.Term, bool) {
	switch x := root.(type) {
	case *ssa.UnOp:
		if a, ok := x.X.(*ssa.Alloc); ok && !stored[a] {
			if c, ok := st.fr.cells[a]; ok {
				if p, ok := st.cellVals[c].(PtrV); ok && p.Ref != nil && len(p.Path) == 0 {
					return p.Ref, true
				}
			}
		}
	case *ssa.Parameter:
		if p, ok := st.fr.regs[x].(PtrV); ok && p.Ref != nil && len(p.Path) == 0 {
			return p.Ref, true
		}
	}
	return nil, false
}

func (e *Engine) interceptable(f *ssa.Function) (string, bool) {
	if f.Signature.Recv() != nil && isSeqType(derefType(f.Signature.Recv().Type())) {
		return "seq", true
	}
	return "", false
}

// staticModifies maps one modifies target of a callee contract to heap
// names, using only static information about the call's arguments.
func (e *Engine) staticModifies(st *State, f *ssa.Function, c *ssa.CallCommon, m *cexpr.Node, cells map[*ssa.Alloc]bool, field func(types.Type, []int, ssa.Value), elems map[string]types.Type) bool {
	// forms: x.f  x.f.g  x.*  heap(x.f)  heap(x)
	isHeap := false
	if m.Kind == "call" && m.Args[0].Kind == "ident" && m.Args[0].Name == "heap" {
		isHeap = true
		m = m.Args[1]
	}
	// collect selector chain
	var names []string
	cur := m
	for cur.Kind == "sel" {
		names = append([]string{cur.Name}, names...)
		cur = cur.Args[0]
	}
	if cur.Kind != "ident" {
		return false
	}
	// find the parameter
	var arg ssa.Value
	var ptype types.Type
	for i, p := range f.Params {
		if p.Name() == cur.Name {
			arg = c.Args[i]
			ptype = p.Type()
		}
	}
	if arg == nil {
		return false
	}
	if len(names) == 0 {
		if isHeap {
			if s, ok := ptype.Underlying().(*types.Slice); ok {
				elems[typeKey(s.Elem())] = s.Elem()
				return true
			}
		}
		return false
	}
	pt, ok := ptype.Underlying().(*types.Pointer)
	if !ok {
		return false
	}
	// resolve the argument pointer statically: FieldAddr chain over a root
	var prefix []int
	root := arg
	for {
		if fa, ok := root.(*ssa.FieldAddr); ok {
			prefix = append([]int{fa.Field}, prefix...)
			root = fa.X
			continue
		}
		break
	}
	rootPT, ok := root.Type().Underlying().(*types.Pointer)
	if !ok {
		return false
	}
	base := rootPT.Elem()
	// resolve names on the callee's pointee type
	t := pt.Elem()
	var path []int
	for _, nme := range names {
		if nme == "*" {
			break
		}
		idx, ft := fieldPath(t, nme)
		if idx == nil {
			return false
		}
		path = append(path, idx...)
		t = ft
	}
	full := append(append([]int(nil), prefix...), path...)
	if isHeap {
		if s, ok := t.Underlying().(*types.Slice); ok {
			elems[typeKey(s.Elem())] = s.Elem()
			return true
		}
		return false
	}
	field(base, full, root)
	return true
}

// havocTarget forgets one modifies target evaluated in env. atCall selects
// call-site semantics (targets are evaluated with the callee's parameter
// bindings).
func (e *Engine) havocTarget(st *State, env *Env, m *cexpr.Node, atCall bool) {
	e.havocTargetIn(st, env, m)
}

// havocTargetIn resolves the target in env (whose state may be a snapshot) and forgets it in st.
func (e *Engine) havocTargetIn(st *State, env *Env, m *cexpr.Node) {
	isHeap := false
	if m.Kind == "call" && m.Args[0].Kind == "ident" && m.Args[0].Name == "heap" {
		isHeap = true
		m = m.Args[1]
	}
	if m.Kind == "ident" && m.Name == "everything" {
		st.havocAll()
		st.globals = map[*ssa.Global]Value{}
		return
	}
	if m.Kind == "ident" && !isHeap {
		// local variable (loop havoc) — find the cell
		if env.frame != nil {
			for i := len(env.frame.cellOrder) - 1; i >= 0; i-- {
				a := env.frame.cellOrder[i]
				if a.Comment == m.Name {
					c := env.frame.cells[a]
					v, f := freshValue(a.Comment, c.Typ)
					st.cellVals[c] = v
					st.assumeFacts(f)
					return
				}
			}
		}
		panic("havoc target not found: " + m.Name)
	}
	if isHeap {
		v := e.eval(env, m)
		s, ok := v.(SliceV)
		if !ok {
			panic("heap(x): x must be a slice")
		}
		e.frameCheck(st, s.Elem, s.Arr, 0)
		for _, l := range leavesOf(s.Elem) {
			name := elemHeapName(s.Elem, l.Suffix)
			srt := smt.ArrayOf(smt.ArrayOf(l.Sort))
			h := st.heap(name, srt)
			st.setHeap(name, smt.Store(h, s.Arr, smt.Fresh(name+"!arr", smt.ArrayOf(l.Sort))))
		}
		return
	}
	if m.Kind != "sel" {
		panic("unsupported modifies target " + m.String())
	}
	// x.f... : evaluate x as pointer, then havoc the field leaves at that ref
	var names []string
	cur := m
	for cur.Kind == "sel" {
		names = append([]string{cur.Name}, names...)
		cur = cur.Args[0]
	}
	pv, ok := e.eval(env, cur).(PtrV)
	if !ok {
		panic("modifies target root is not a pointer: " + m.String())
	}
	var pt types.Type
	if pv.Ref != nil {
		_, pt = fieldSuffix(pv.Base, pv.Path)
	} else {
		pt = pv.Elem
	}
	path := append([]int(nil), pv.Path...)
	t := pt
	for _, nme := range names {
		if nme == "*" {
			break
		}
		idx, ft := fieldPath(t, nme)
		if idx == nil {
			panic("modifies: no field " + nme + " in " + t.String())
		}
		path = append(path, idx...)
		t = ft
	}
	switch {
	case pv.Ref != nil:
		suf, _ := fieldSuffix(pv.Base, path)
		for _, l := range leavesOf(t) {
			name := fieldHeapName(pv.Base, suf+l.Suffix)
			h := st.heap(name, smt.ArrayOf(l.Sort))
			fv := smt.Fresh(name, l.Sort)
			st.setHeap(name, smt.Store(h, pv.Ref, fv))
		}
		// type facts of the new field values
		nv := st.loadField(pv.Base, path, pv.Ref)
		_ = nv
	case pv.Cell != nil:
		v, f := freshValue(pv.Cell.Name, t)
		st.cellVals[pv.Cell] = setPath(st.cellVals[pv.Cell], path, v)
		st.assumeFacts(f)
	default:
		panic("modifies target: unsupported pointer")
	}
}

// propagateEqualities substitutes fresh symbols that the path condition
// equates with other terms (keeps branch conditions decidable by the
// simplifier).
func (e *Engine) propagateEqualities(st *State) {
	sub := map[*smt.Term]*smt.Term{}
	for _, h := range st.pc.list() {
		if h.Op != "=" {
			continue
		}
		a, b := h.Args[0], h.Args[1]
		if isHavocVar(a) && !occurs(a, b) {
			if _, ok := sub[a]; !ok {
				sub[a] = smt.Subst(b, sub)
				continue
			}
		}
		if isHavocVar(b) && !occurs(b, a) {
			if _, ok := sub[b]; !ok {
				sub[b] = smt.Subst(a, sub)
			}
		}
	}
	if len(sub) == 0 {
		return
	}
	// close the substitution
	for k, v := range sub {
		sub[k] = smt.Subst(v, sub)
	}
	e.substState(st, sub)
}

func isHavocVar(t *smt.Term) bool {
	if t.Op != "var" {
		return false
	}
	for i := 0; i < len(t.Name); i++ {
		if t.Name[i] == '!' {
			return true
		}
	}
	return false
}

func occurs(v, t *smt.Term) bool {
	return occursM(v, t, map[*smt.Term]bool{})
}

func occursM(v, t *smt.Term, memo map[*smt.Term]bool) bool {
	if v == t {
		return true
	}
	if r, ok := memo[t]; ok {
		return r
	}
	r := false
	for _, a := range t.Args {
		if occursM(v, a, memo) {
			r = true
			break
		}
	}
	memo[t] = r
	return r
}

func (e *Engine) substState(st *State, sub map[*smt.Term]*smt.Term) {
	sv := func(v Value) Value { return substValue(v, sub) }
	for c, v := range st.cellVals {
		st.cellVals[c] = sv(v)
	}
	for fr := st.fr; fr != nil; fr = fr.parent {
		for k, v := range fr.regs {
			fr.regs[k] = sv(v)
		}
		for k, v := range fr.lets {
			fr.lets[k] = sv(v)
		}
		for _, a := range fr.active {
			if a.variant != nil {
				a.variant = smt.Subst(a.variant, sub)
			}
		}
	}
	for k, h := range st.heaps {
		st.heaps[k] = smt.Subst(h, sub)
	}
	for g, v := range st.globals {
		st.globals[g] = sv(v)
	}
	st.alloc = smt.Subst(st.alloc, sub)
	// the path condition keeps the equalities (they define the symbols)
}

func substValue(v Value, sub map[*smt.Term]*smt.Term) Value {
	s := func(t *smt.Term) *smt.Term {
		if t == nil {
			return nil
		}
		return smt.Subst(t, sub)
	}
	switch x := v.(type) {
	case IntV:
		return IntV{s(x.T)}
	case BoolV:
		return BoolV{s(x.T)}
	case FloatV:
		return FloatV{s(x.T)}
	case StrV:
		return StrV{s(x.Arr), s(x.Off), s(x.Len)}
	case SeqV:
		return SeqV{s(x.Arr), s(x.Len)}
	case SliceV:
		return SliceV{s(x.Arr), s(x.Off), s(x.Len), s(x.Cap), x.Elem}
	case RefV:
		return RefV{s(x.T), x.Typ}
	case AnyV:
		return AnyV{s(x.T)}
	case StructV:
		r := StructV{Typ: x.Typ}
		for _, f := range x.Fields {
			r.Fields = append(r.Fields, substValue(f, sub))
		}
		return r
	case TupleV:
		r := make(TupleV, len(x))
		for i, f := range x {
			r[i] = substValue(f, sub)
		}
		return r
	case PtrV:
		y := x
		y.Ref = s(x.Ref)
		y.Idx = s(x.Idx)
		if x.Slice != nil {
			sl := substValue(*x.Slice, sub).(SliceV)
			y.Slice = &sl
		}
		return y
	case ArrayV:
		r := ArrayV{Typ: x.Typ}
		for _, l := range x.Leaves {
			r.Leaves = append(r.Leaves, s(l))
		}
		return r
	case IterV:
		return x
	}
	return v
}
