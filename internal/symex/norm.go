package symex

import (
	"verif/internal/smt"
)

// Ground normalisation of goals under the path condition.
//
// The path condition contains many ground equalities (x = c, Run(n').f = Run(n).f, len fields = ghost lengths) and
// ground atoms (branch conditions). Rewriting the goal with them — equalities oriented from the newer term to the older
// one, atoms to true/false — is an equivalence under the hypotheses, so the rewritten goal is proved instead; the
// hypotheses themselves are passed to the solver unchanged. Conjuncts of the rewritten goal that coincide with a
// rewritten hypothesis need no proof. This is what makes the large simulation obligations small: after a step that only
// moves the offset, the relation at the new offset rewrites to the relation at the old one.

// bound is the known constant interval of a term.
type bound struct {
	lo, hi       int64
	hasLo, hasHi bool
	ne           []int64 // excluded values
}

func (b *bound) tighten() {
	for again := true; again; {
		again = false
		for _, v := range b.ne {
			if b.hasLo && b.lo == v {
				b.lo++
				again = true
			}
			if b.hasHi && b.hi == v {
				b.hi--
				again = true
			}
		}
	}
}

type normInfo struct {
	bounds map[*smt.Term]bound
	pc     *pcNode
	rw     int // len of st.rw when built
	rules  map[*smt.Term]*smt.Term
	hyps   map[*smt.Term]bool // hypotheses, raw and rewritten (on demand)
	parent *normInfo          // info of an ancestor path condition this one was extended from
	news   []*smt.Term        // hypotheses added since parent
}

const normRounds = 8

func normalize(t *smt.Term, rules map[*smt.Term]*smt.Term) *smt.Term {
	for i := 0; i < normRounds; i++ {
		n := smt.Subst(t, rules)
		if n == t {
			return t
		}
		t = n
	}
	return t
}

// normalizeB is normalize followed by interval simplification of comparisons with constants.
func (ni *normInfo) normalizeB(t *smt.Term) *smt.Term {
	for i := 0; i < 3; i++ {
		n := normalize(t, ni.rules)
		if len(ni.bounds) > 0 {
			n = boundSimplify(n, ni.bounds, map[*smt.Term]*smt.Term{})
		}
		if n == t {
			return t
		}
		t = n
	}
	return t
}

func constSide(t *smt.Term) (x *smt.Term, k int64, constLeft bool, ok bool) {
	a, b := t.Args[0], t.Args[1]
	if a.IsConst() && !b.IsConst() && a.Val.IsInt64() {
		return b, a.Val.Int64(), true, true
	}
	if b.IsConst() && !a.IsConst() && b.Val.IsInt64() {
		return a, b.Val.Int64(), false, true
	}
	return nil, 0, false, false
}

// boundSimplify decides comparisons of a bounded term with a constant.
func boundSimplify(t *smt.Term, bounds map[*smt.Term]bound, memo map[*smt.Term]*smt.Term) *smt.Term {
	if len(t.Args) == 0 {
		return t
	}
	if r, ok := memo[t]; ok {
		return r
	}
	r := t
	switch t.Op {
	case "=", "<", "<=":
		if t.Args[0].S == smt.Int {
			if x, k, left, ok := constSide(t); ok {
				if b, ok := bounds[x]; ok {
					switch {
					case t.Op == "=":
						if b.hasLo && k < b.lo || b.hasHi && k > b.hi {
							r = smt.False
						} else if b.hasLo && b.hasHi && b.lo == b.hi && b.lo == k {
							r = smt.True
						}
					case t.Op == "<=" && !left: // x <= k
						if b.hasHi && b.hi <= k {
							r = smt.True
						} else if b.hasLo && b.lo > k {
							r = smt.False
						}
					case t.Op == "<=" && left: // k <= x
						if b.hasLo && k <= b.lo {
							r = smt.True
						} else if b.hasHi && b.hi < k {
							r = smt.False
						}
					case t.Op == "<" && !left: // x < k
						if b.hasHi && b.hi < k {
							r = smt.True
						} else if b.hasLo && b.lo >= k {
							r = smt.False
						}
					case t.Op == "<" && left: // k < x
						if b.hasLo && k < b.lo {
							r = smt.True
						} else if b.hasHi && b.hi <= k {
							r = smt.False
						}
					}
				}
			}
		}
	}
	if r == t {
		changed := false
		args := make([]*smt.Term, len(t.Args))
		for i, a := range t.Args {
			args[i] = boundSimplify(a, bounds, memo)
			if args[i] != a {
				changed = true
			}
		}
		if changed {
			r = smt.Rebuild(t, args)
		}
	}
	memo[t] = r
	return r
}

// addBounds records the constant bounds stated by hypotheses.
func addBounds(bounds map[*smt.Term]bound, hyps []*smt.Term, rules map[*smt.Term]*smt.Term) {
	for _, h := range hyps {
		neg := false
		a := h
		if a.Op == "not" {
			neg, a = true, a.Args[0]
		}
		if neg && a.Op == "=" && a.Args[0].S == smt.Int {
			if x, k, _, ok := constSide(a); ok {
				x = normalize(x, rules)
				if x.Op == "select" || x.Op == "var" || x.Op == "app" {
					b := bounds[x]
					b.ne = append(append([]int64(nil), b.ne...), k)
					b.tighten()
					bounds[x] = b
				}
			}
			continue
		}
		if (a.Op != "<=" && a.Op != "<") || len(a.Args) != 2 {
			continue
		}
		x, k, left, ok := constSide(a)
		if ok {
			x = normalize(x, rules)
		}
		if !ok || !(x.Op == "select" || x.Op == "var" || x.Op == "app") {
			continue
		}
		// normalise to lower / upper bound
		lower := left // k <= x or k < x
		strict := a.Op == "<"
		if neg {
			// not (k <= x) == x < k ; not (x <= k) == k < x
			lower = !lower
			strict = !strict
		}
		b := bounds[x]
		if lower {
			v := k
			if strict {
				v = k + 1
			}
			if !b.hasLo || v > b.lo {
				b.lo, b.hasLo = v, true
			}
		} else {
			v := k
			if strict {
				v = k - 1
			}
			if !b.hasHi || v < b.hi {
				b.hi, b.hasHi = v, true
			}
		}
		b.tighten()
		bounds[x] = b
	}
}

func ruleLHS(t *smt.Term) bool {
	switch t.Op {
	case "var", "select":
		return true
	case "app":
		return !smt.IsCtor(t.Name)
	}
	return false
}

func isGroundAtom(t *smt.Term) bool {
	switch t.Op {
	case "<", "<=", "=":
		return true
	case "var", "app", "select":
		return t.S == smt.Bool
	}
	return false
}

func isValueConst(t *smt.Term) bool {
	if t.IsConst() || t.IsBoolConst() {
		return true
	}
	if _, ok := smt.DistinctConsts[t]; ok {
		return true
	}
	return false
}

// addRules extends a rewrite system with the rules of further hypotheses (triangular: each right-hand side is normal with
// respect to the earlier rules and does not contain its left-hand side).
func addRules(rules map[*smt.Term]*smt.Term, hyps []*smt.Term) {
	qmemo := map[*smt.Term]bool{}
	add := func(l, r *smt.Term) bool {
		if !ruleLHS(l) || isValueConst(l) {
			return false
		}
		if _, dup := rules[l]; dup {
			return false
		}
		if occurs(l, r) {
			return false
		}
		rules[l] = r
		return true
	}
	for _, h := range hyps {
		if hasQuantM(h, qmemo) {
			continue
		}
		neg := false
		a := h
		if a.Op == "not" {
			neg = true
			a = a.Args[0]
		}
		if !neg && a.Op == "=" {
			x, y := normalize(a.Args[0], rules), normalize(a.Args[1], rules)
			if x != y {
				switch {
				case isValueConst(y) && add(x, y):
				case isValueConst(x) && add(y, x):
				case x.ID() > y.ID() && add(x, y):
				case add(y, x):
				case add(x, y):
				}
			}
		}
		if isGroundAtom(a) && !isValueConst(a) {
			if _, dup := rules[a]; !dup {
				if neg {
					rules[a] = smt.False
				} else {
					rules[a] = smt.True
				}
			}
			// antisymmetry: x <= y together with y <= x (or not x < y) is the equality x = y
			var x, y *smt.Term
			switch {
			case !neg && a.Op == "<=":
				if rules[smt.Le(a.Args[1], a.Args[0])] == smt.True || rules[smt.Lt(a.Args[0], a.Args[1])] == smt.False {
					x, y = a.Args[0], a.Args[1]
				}
			case neg && a.Op == "<":
				if rules[smt.Le(a.Args[0], a.Args[1])] == smt.True {
					x, y = a.Args[0], a.Args[1]
				}
			}
			if x != nil {
				x, y = normalize(x, rules), normalize(y, rules)
				if x != y {
					switch {
					case isValueConst(y) && add(x, y):
					case isValueConst(x) && add(y, x):
					case x.ID() > y.ID() && add(x, y):
					case add(y, x):
					case add(x, y):
					}
				}
			}
		}
	}
}

// normFor returns the rewrite system of the state's path condition, extending the cached one of the nearest ancestor.
func (e *Engine) normFor(st *State) *normInfo {
	if e.normCache == nil || len(e.normCache) > 512 {
		e.normCache = map[*pcNode]*normInfo{}
	}
	var news []*smt.Term
	var base *normInfo
	for x := st.pc; x != nil; x = x.parent {
		if ni, ok := e.normCache[x]; ok && ni.rw <= len(st.rw) {
			base = ni
			break
		}
		news = append(news, x.t)
	}
	if base != nil && len(news) == 0 && base.rw == len(st.rw) {
		return base
	}
	for i, j := 0, len(news)-1; i < j; i, j = i+1, j-1 {
		news[i], news[j] = news[j], news[i]
	}
	ni := &normInfo{pc: st.pc, rw: len(st.rw), parent: base, news: news}
	n := len(news) + len(st.rw)
	if base != nil {
		n += len(base.rules)
	}
	ni.rules = make(map[*smt.Term]*smt.Term, n)
	ni.bounds = map[*smt.Term]bound{}
	if base != nil {
		for k, v := range base.rules {
			ni.rules[k] = v
		}
		for k, v := range base.bounds {
			ni.bounds[k] = v
		}
	}
	if base == nil || base.rw != len(st.rw) {
		for k, v := range st.rw {
			ni.rules[k] = v
		}
	}
	addRules(ni.rules, news)
	addBounds(ni.bounds, news, ni.rules)
	e.normCache[st.pc] = ni
	return ni
}

// normHyps is the set of hypotheses, raw and rewritten (computed on demand, extending the ancestor's).
func (ni *normInfo) normHyps() map[*smt.Term]bool {
	if ni.hyps != nil {
		return ni.hyps
	}
	if ni.parent != nil {
		ph := ni.parent.normHyps()
		ni.hyps = make(map[*smt.Term]bool, len(ph)+2*len(ni.news))
		for k := range ph {
			ni.hyps[k] = true
		}
	} else {
		ni.hyps = make(map[*smt.Term]bool, 2*len(ni.news))
	}
	// a hypothesis rewritten by the rule derived from itself is true; only quantified and compound hypotheses (which
	// have no rule of their own) are rewritten
	for _, h := range ni.news {
		ni.hyps[h] = true
		if isGroundAtom(h) || (h.Op == "not" && isGroundAtom(h.Args[0])) {
			continue
		}
		n := ni.normalizeB(h)
		if n.Op == "and" {
			for _, c := range n.Args {
				ni.hyps[c] = true
			}
		} else {
			ni.hyps[n] = true
		}
	}
	return ni.hyps
}

// normGoal rewrites the goal under the path condition and drops conjuncts that are hypotheses.
func (e *Engine) normGoal(st *State, goal *smt.Term) *smt.Term {
	if goal == nil || goal.IsBoolConst() {
		return goal
	}
	ni := e.normFor(st)
	g := ni.normalizeB(goal)
	if g.IsBoolConst() {
		return g
	}
	if g.Op == "and" {
		hs := ni.normHyps()
		var rest []*smt.Term
		for _, c := range g.Args {
			if !hs[c] {
				rest = append(rest, c)
			}
		}
		if len(rest) < len(g.Args) {
			g = smt.And(rest...)
		}
	} else if g.Op == "forall" || g.Op == "=>" || g.Op == "or" {
		if ni.normHyps()[g] {
			g = smt.True
		}
	}
	return g
}

// valueTerm is the single term of a scalar value (nil for composite values).
func valueTerm(v Value) *smt.Term {
	switch x := v.(type) {
	case IntV:
		return x.T
	case BoolV:
		return x.T
	case FloatV:
		return x.T
	case AnyV:
		return x.T
	}
	return nil
}
