package symex

import (
	"fmt"
	"go/constant"
	"go/token"
	"go/types"
	"math/big"
	"strconv"
	"strings"

	"golang.org/x/tools/go/ssa"

	"verif/internal/cexpr"
	"verif/internal/contract"
	"verif/internal/smt"
)

// Env is the evaluation environment of contract expressions.
type Env struct {
	e       *Engine
	st      *State
	old     *State
	vars    map[string]Value
	fn      *ssa.Function // function whose locals are visible (nil at call sites)
	pkg     *ssa.Package
	frame   *Frame
	results []Value
	resName []string
	inOld   bool
}

func (env *Env) child() *Env {
	c := *env
	c.vars = make(map[string]Value, len(env.vars)+2)
	for k, v := range env.vars {
		c.vars[k] = v
	}
	return &c
}

func (env *Env) setResult(res Value, sig *types.Signature) {
	env.results = nil
	env.resName = nil
	n := sig.Results().Len()
	if n == 1 {
		env.results = []Value{res}
	} else if n > 1 {
		env.results = []Value(res.(TupleV))
	}
	for i := 0; i < n; i++ {
		env.resName = append(env.resName, sig.Results().At(i).Name())
	}
}

// funcEnv is the environment of the function currently executing in st.
func (e *Engine) funcEnv(st *State) *Env {
	fr := st.fr
	for fr.parent != nil {
		fr = fr.parent
	}
	env := &Env{e: e, st: st, old: st.entry, vars: map[string]Value{}, fn: fr.fn, pkg: fr.fn.Pkg, frame: fr}
	for k, v := range fr.ghost {
		env.vars[k] = v
	}
	for k, v := range fr.lets {
		env.vars[k] = v
	}
	return env
}

// calleeEnv binds a callee's parameter names to argument values.
func (e *Engine) calleeEnv(st *State, fc *contract.Func, f *ssa.Function, sig *types.Signature, args []Value) *Env {
	env := &Env{e: e, st: st, old: st, vars: map[string]Value{}}
	if f != nil {
		env.pkg = f.Pkg
		for i, p := range f.Params {
			env.vars[p.Name()] = args[i]
		}
	} else {
		// interface method: receiver is "self", params by signature names
		env.vars["self"] = args[0]
		for i := 0; i < sig.Params().Len(); i++ {
			env.vars[sig.Params().At(i).Name()] = args[i+1]
		}
		if p := e.SSAPkgs[fc.Pkg]; p != nil {
			env.pkg = p
		}
	}
	return env
}

// lookupLocal finds a source-level local variable or parameter by name.
func (env *Env) lookupLocal(name string) (Value, bool) {
	if v, ok := env.vars[name]; ok {
		return v, true
	}
	if env.frame == nil {
		return nil, false
	}
	if name == "$k" {
		name = "rangeindex"
	}
	fr := env.frame
	st := env.st
	if env.inOld && env.old != nil {
		st = env.old
		ofr := st.fr
		for ofr != nil && ofr.parent != nil {
			ofr = ofr.parent
		}
		if ofr != nil {
			fr = ofr
		}
	}
	for i := len(fr.cellOrder) - 1; i >= 0; i-- {
		a := fr.cellOrder[i]
		if a.Comment == name {
			c := fr.cells[a]
			if v, ok := st.cellVals[c]; ok {
				return v, true
			}
		}
	}
	for _, p := range fr.fn.Params {
		if p.Name() == name {
			if v, ok := fr.regs[p]; ok {
				return v, true
			}
		}
	}
	return nil, false
}

func (e *Engine) evalBool(env *Env, n *cexpr.Node) *smt.Term {
	v := e.eval(env, n)
	b, ok := v.(BoolV)
	if !ok {
		panic(fmt.Sprintf("contract expression %s is not boolean (%T)", n, v))
	}
	return b.T
}

func (e *Engine) evalInt(env *Env, n *cexpr.Node) *smt.Term {
	v := e.eval(env, n)
	b, ok := v.(IntV)
	if !ok {
		panic(fmt.Sprintf("contract expression %s is not integer (%T)", n, v))
	}
	return b.T
}

// PkgV is a package qualifier in an expression.
type PkgV struct{ Pkg *ssa.Package }

// FuncRefV refers to a callable (spec function, predicate, builtin).
type FuncRefV struct {
	Name string
	Fn   *ssa.Function
	Pred *contract.Pred
}

// TypeV is a type used as an expression (for as(x, T)).
type TypeV struct{ T types.Type }

func (e *Engine) eval(env *Env, n *cexpr.Node) Value {
	switch n.Kind {
	case "int":
		bi, ok := new(big.Int).SetString(n.Val, 0)
		if !ok {
			panic("bad integer literal " + n.Val)
		}
		return IntV{smt.BigC(bi)}
	case "bool":
		return BoolV{smt.BoolC(n.Val == "true")}
	case "str":
		return e.strConst(n.Val)
	case "ident":
		return e.evalIdent(env, n.Name)
	case "old":
		c := *env
		c.st = env.old
		c.inOld = true
		return e.eval(&c, n.Args[0])
	case "unary":
		x := e.eval(env, n.Args[0])
		switch n.Op {
		case "!":
			return BoolV{smt.Not(x.(BoolV).T)}
		case "-":
			return IntV{smt.Neg(x.(IntV).T)}
		}
	case "binary":
		return e.evalBinary(env, n)
	case "ite":
		c := e.evalBool(env, n.Args[0])
		return mergeValues(c, e.eval(env, n.Args[1]), e.eval(env, n.Args[2]))
	case "forall", "exists":
		c := env.child()
		var bound []*smt.Term
		for _, v := range n.Vars {
			b := smt.Fresh(v+"!q", smt.Int)
			bound = append(bound, b)
			c.vars[v] = IntV{b}
		}
		// evaluate body in a scratch state so that facts assumed during
		// evaluation (type ranges of quantified reads) do not leak
		saved := c.st
		scratch := saved.clone()
		c.st = scratch
		body := e.evalBool(c, n.Args[0])
		// facts added while evaluating the body become part of the body
		extra := scratch.pc.list()[lenPC(saved.pc):]
		// type facts about quantified reads (value ranges of elements, allocation of references) hold for every
		// index: they are assumed universally instead of weakening the body
		if len(extra) > 0 && !saved.pure {
			var keep, facts []*smt.Term
			for _, x := range extra {
				if scratch.facts[x] && !saved.facts[x] {
					facts = append(facts, x)
				} else {
					keep = append(keep, x)
				}
			}
			if len(facts) > 0 {
				saved.assume(smt.Forall(bound, smt.And(facts...)))
			}
			extra = keep
		}
		if len(extra) > 0 {
			if n.Kind == "forall" {
				body = smt.Implies(smt.And(extra...), body)
			} else {
				body = smt.And(append(extra, body)...)
			}
		}
		var pats []*smt.Term
		for _, pn := range n.Args[1:] {
			if t := valueTerm(e.eval(c, pn)); t != nil {
				pats = append(pats, t)
			}
		}
		if len(bound) == 1 && len(pats) == 0 {
			nb, nbody := smt.Rebase(bound[0], body)
			bound, body = []*smt.Term{nb}, nbody
		}
		if n.Kind == "forall" {
			return BoolV{smt.Forall(bound, body, pats...)}
		}
		return BoolV{smt.Exists(bound, body)}
	case "sel":
		return e.evalSel(env, n)
	case "index":
		x := e.eval(env, n.Args[0])
		i := e.evalInt(env, n.Args[1])
		switch s := x.(type) {
		case StrV:
			return IntV{strIndex(s, i)}
		case SeqV:
			return IntV{smt.Select(s.Arr, i)}
		case SliceV:
			return env.st.loadElem(s.Elem, nil, s.Arr, smt.Add(s.Off, i))
		case SnapV:
			return fromLeaves(s.Elem, []*smt.Term{smt.Select(s.Arr, smt.Add(s.Off, i))})
		}
		panic(fmt.Sprintf("cannot index %T in %s", x, n))
	case "slice":
		x := e.eval(env, n.Args[0])
		lo := smt.IntC(0)
		if n.Args[1] != nil {
			lo = e.evalInt(env, n.Args[1])
		}
		switch s := x.(type) {
		case StrV:
			hi := s.Len
			if n.Args[2] != nil {
				hi = e.evalInt(env, n.Args[2])
			}
			return StrV{Arr: s.Arr, Off: smt.Add(s.Off, lo), Len: smt.Sub(hi, lo)}
		case SliceV:
			hi := s.Len
			if n.Args[2] != nil {
				hi = e.evalInt(env, n.Args[2])
			}
			return SliceV{Arr: s.Arr, Off: smt.Add(s.Off, lo), Len: smt.Sub(hi, lo), Cap: smt.Sub(s.Cap, lo), Elem: s.Elem}
		}
		panic(fmt.Sprintf("cannot slice %T in %s", x, n))
	case "call":
		return e.evalCall(env, n)
	}
	panic("eval: unsupported node " + n.String())
}

func lenPC(p *pcNode) int {
	if p == nil {
		return 0
	}
	return p.n
}

func (e *Engine) evalIdent(env *Env, name string) Value {
	if name == "result" {
		if len(env.results) == 0 {
			panic("'result' used where no result is available")
		}
		if len(env.results) == 1 {
			return env.results[0]
		}
		return TupleV(env.results)
	}
	if name == "nil" {
		return NilV{}
	}
	if strings.HasPrefix(name, "result") {
		if k, err := strconv.Atoi(name[6:]); err == nil && k < len(env.results) {
			return env.results[k]
		}
	}
	if v, ok := env.lookupLocal(name); ok {
		return v
	}
	for i, rn := range env.resName {
		if rn == name && rn != "" {
			return env.results[i]
		}
	}
	switch name {
	case "snap", "ismap", "anyref":
		return FuncRefV{Name: name}
	case "isint64", "isfloat64", "isstring", "isbool", "anyint", "anystr", "anybool", "isjsonnumber", "anyfloat", "float64", "feq", "uf", "anyslice", "sametype":
		return FuncRefV{Name: name}
	case "len", "cap", "fresh", "as", "typeis", "isnil", "arrid", "abs", "min", "max", "allocated", "sameslice", "unchanged", "str", "int64", "uint64", "int", "byte", "implies", "ident":
		return FuncRefV{Name: name}
	case "MaxInt64":
		return IntV{smt.BigC(new(big.Int).Sub(pow2(63), big.NewInt(1)))}
	case "MinInt64":
		return IntV{smt.BigC(new(big.Int).Neg(pow2(63)))}
	case "MaxUint64":
		return IntV{smt.BigC(new(big.Int).Sub(pow2(64), big.NewInt(1)))}
	}
	if env.pkg != nil {
		if p, ok := e.Preds[env.pkg.Pkg.Path()+"."+name]; ok {
			return FuncRefV{Name: name, Pred: p}
		}
	}
	if p, ok := e.Preds[name]; ok {
		return FuncRefV{Name: name, Pred: p}
	}
	if env.pkg != nil {
		if v, ok := e.pkgMember(env, env.pkg, name); ok {
			return v
		}
		// imported package names
		for _, imp := range env.pkg.Pkg.Imports() {
			if imp.Name() == name {
				if sp := e.SSAPkgs[imp.Path()]; sp != nil {
					return PkgV{sp}
				}
			}
		}
	}
	// spec package and any loaded package by name
	for path, sp := range e.SSAPkgs {
		if sp.Pkg.Name() == name && (strings.HasSuffix(path, "verif/spec") || strings.Contains(path, "ohler55/ojg")) {
			return PkgV{sp}
		}
	}
	panic(fmt.Sprintf("unknown identifier %q in contract (function %v)", name, env.fn))
}

// SnapV is an immutable snapshot of a slice's contents.
type SnapV struct {
	Arr, Off, Len *smt.Term
	Elem          types.Type
}

// NilV is the untyped nil in contract expressions.
type NilV struct{}

func (e *Engine) pkgMember(env *Env, p *ssa.Package, name string) (Value, bool) {
	m, ok := p.Members[name]
	if !ok {
		return nil, false
	}
	switch x := m.(type) {
	case *ssa.NamedConst:
		return e.constValue(x.Value), true
	case *ssa.Global:
		return e.load(env.st, PtrV{Global: x, Elem: x.Type().(*types.Pointer).Elem()}, token.NoPos), true
	case *ssa.Function:
		return FuncRefV{Name: name, Fn: x}, true
	case *ssa.Type:
		return TypeV{x.Type()}, true
	}
	return nil, false
}

func (e *Engine) evalSel(env *Env, n *cexpr.Node) Value {
	x := e.eval(env, n.Args[0])
	switch v := x.(type) {
	case PkgV:
		if m, ok := e.pkgMember(env, v.Pkg, n.Name); ok {
			return m
		}
		if p, ok := e.Preds[v.Pkg.Pkg.Path()+"."+n.Name]; ok {
			return FuncRefV{Name: n.Name, Pred: p}
		}
		panic(fmt.Sprintf("unknown member %s.%s", v.Pkg.Pkg.Name(), n.Name))
	case PtrV:
		return e.selPtr(env, v, n.Name)
	case FuncRefV:
		if n.Name == "unfold" && v.Fn != nil {
			return FuncRefV{Name: "unfold", Fn: v.Fn}
		}
	case StructV:
		idx, t := fieldPath(v.Typ, n.Name)
		if idx == nil {
			panic(fmt.Sprintf("no field %s in %s", n.Name, v.Typ))
		}
		_ = t
		return getPath(v, idx)
	case TupleV:
		if k, err := strconv.Atoi(strings.TrimPrefix(n.Name, "_")); err == nil {
			return v[k]
		}
	}
	panic(fmt.Sprintf("cannot select .%s from %T in %s", n.Name, x, n))
}

// fieldPath resolves a (possibly promoted) field name to an index path.
func fieldPath(t types.Type, name string) ([]int, types.Type) {
	if p, ok := t.Underlying().(*types.Pointer); ok {
		t = p.Elem()
	}
	obj, idx, _ := types.LookupFieldOrMethod(t, true, nil, name)
	if obj == nil {
		// unexported field from another package: search manually
		return manualFieldPath(t, name, 0)
	}
	if v, ok := obj.(*types.Var); ok && v.IsField() {
		return idx, v.Type()
	}
	return nil, nil
}

func manualFieldPath(t types.Type, name string, depth int) ([]int, types.Type) {
	st, ok := t.Underlying().(*types.Struct)
	if !ok || depth > 4 {
		return nil, nil
	}
	for i := 0; i < st.NumFields(); i++ {
		if st.Field(i).Name() == name {
			return []int{i}, st.Field(i).Type()
		}
	}
	for i := 0; i < st.NumFields(); i++ {
		if st.Field(i).Embedded() {
			ft := st.Field(i).Type()
			if p, ok := ft.(*types.Pointer); ok {
				ft = p.Elem()
			}
			if idx, ft2 := manualFieldPath(ft, name, depth+1); idx != nil {
				return append([]int{i}, idx...), ft2
			}
		}
	}
	return nil, nil
}

func (e *Engine) selPtr(env *Env, p PtrV, name string) Value {
	// pointee type
	var pt types.Type
	switch {
	case p.Ref != nil:
		_, pt = fieldSuffix(p.Base, p.Path)
	case p.Cell != nil:
		pt = p.Elem
	default:
		pt = p.Elem
	}
	idx, _ := fieldPath(pt, name)
	if idx == nil {
		panic(fmt.Sprintf("no field %s in %s", name, pt))
	}
	q := p
	q.Path = append(append([]int(nil), p.Path...), idx...)
	switch {
	case q.Ref != nil:
		return env.st.loadField(q.Base, q.Path, q.Ref)
	case q.Cell != nil:
		return getPath(env.st.cellVals[q.Cell], q.Path)
	}
	return e.load(env.st, q, token.NoPos)
}

func (e *Engine) evalBinary(env *Env, n *cexpr.Node) Value {
	switch n.Op {
	case "&&":
		return BoolV{smt.And(e.evalBool(env, n.Args[0]), e.evalBool(env, n.Args[1]))}
	case "||":
		return BoolV{smt.Or(e.evalBool(env, n.Args[0]), e.evalBool(env, n.Args[1]))}
	case "==>":
		return BoolV{smt.Implies(e.evalBool(env, n.Args[0]), e.evalBool(env, n.Args[1]))}
	case "<==>":
		return BoolV{smt.Eq(e.evalBool(env, n.Args[0]), e.evalBool(env, n.Args[1]))}
	}
	x := e.eval(env, n.Args[0])
	y := e.eval(env, n.Args[1])
	switch n.Op {
	case "==", "!=", "===":
		eq := e.valueEq(x, y, n.Op == "===")
		if n.Op == "!=" {
			eq = smt.Not(eq)
		}
		return BoolV{eq}
	}
	if fx, ok := x.(FloatV); ok {
		fy := y.(FloatV)
		switch n.Op {
		case "<":
			return BoolV{smt.App("f64_lt", smt.Bool, fx.T, fy.T)}
		case "<=":
			return BoolV{smt.App("f64_le", smt.Bool, fx.T, fy.T)}
		case ">":
			return BoolV{smt.App("f64_lt", smt.Bool, fy.T, fx.T)}
		case ">=":
			return BoolV{smt.App("f64_le", smt.Bool, fy.T, fx.T)}
		}
	}
	if sx, ok := x.(StrV); ok {
		// string ordering: the same uninterpreted relation the executor uses for Go's < on strings
		sy := y.(StrV)
		if _, ok := smt.FunDecls["str_lt"]; !ok {
			smt.DeclareFun("str_lt", []smt.Sort{smt.IArr, smt.Int, smt.Int, smt.IArr, smt.Int, smt.Int}, smt.Bool)
		}
		lt := func(p, q StrV) *smt.Term { return smt.App("str_lt", smt.Bool, p.Arr, p.Off, p.Len, q.Arr, q.Off, q.Len) }
		switch n.Op {
		case "<":
			return BoolV{lt(sx, sy)}
		case ">":
			return BoolV{lt(sy, sx)}
		case "<=":
			return BoolV{smt.Not(lt(sy, sx))}
		case ">=":
			return BoolV{smt.Not(lt(sx, sy))}
		}
	}
	a, ok1 := x.(IntV)
	b, ok2 := y.(IntV)
	if !ok1 || !ok2 {
		panic(fmt.Sprintf("operator %s on %T and %T in %s", n.Op, x, y, n))
	}
	switch n.Op {
	case "<":
		return BoolV{smt.Lt(a.T, b.T)}
	case "<=":
		return BoolV{smt.Le(a.T, b.T)}
	case ">":
		return BoolV{smt.Gt(a.T, b.T)}
	case ">=":
		return BoolV{smt.Ge(a.T, b.T)}
	case "+":
		return IntV{smt.Add(a.T, b.T)}
	case "-":
		return IntV{smt.Sub(a.T, b.T)}
	case "*":
		return IntV{smt.Mul(a.T, b.T)}
	case "/":
		// contract division is truncated (Go) division
		return IntV{goDiv(a.T, b.T)}
	case "%":
		return IntV{goMod(a.T, b.T)}
	}
	panic("unsupported operator " + n.Op + " in contract")
}

// valueEq compares two values structurally. ident requests representation identity for strings.
func (e *Engine) valueEq(x, y Value, ident bool) *smt.Term {
	if f, ok := x.(FuncRefV); ok && f.Fn != nil {
		x = RefV{T: smt.Var("fn:"+f.Fn.String(), smt.Int), Typ: f.Fn.Type()}
	}
	if f, ok := y.(FuncRefV); ok && f.Fn != nil {
		y = RefV{T: smt.Var("fn:"+f.Fn.String(), smt.Int), Typ: f.Fn.Type()}
	}
	if _, ok := x.(NilV); ok {
		x, y = y, x
	}
	if _, ok := y.(NilV); ok {
		switch v := x.(type) {
		case AnyV:
			return smt.Eq(v.T, anyNil())
		case RefV:
			return smt.Eq(v.T, smt.IntC(0))
		case PtrV:
			return smt.Eq(v.Ref, smt.IntC(0))
		case SliceV:
			return smt.Eq(v.Arr, smt.IntC(0))
		case NilV:
			return smt.True
		}
		panic(fmt.Sprintf("nil comparison with %T", x))
	}
	switch a := x.(type) {
	case IntV:
		return smt.Eq(a.T, y.(IntV).T)
	case BoolV:
		return smt.Eq(a.T, y.(BoolV).T)
	case FloatV:
		return smt.Eq(a.T, y.(FloatV).T)
	case StrV:
		b := y.(StrV)
		big := func(s StrV) bool { return s.Len.IsConst() && s.Len.Int64() > 16 }
		if ident || big(a) || big(b) {
			return strIdent(a, b)
		}
		return strEq(a, b)
	case SeqV:
		b := y.(SeqV)
		return smt.And(smt.Eq(a.Arr, b.Arr), smt.Eq(a.Len, b.Len))
	case SliceV:
		b := y.(SliceV)
		return smt.And(smt.Eq(a.Arr, b.Arr), smt.Eq(a.Off, b.Off), smt.Eq(a.Len, b.Len), smt.Eq(a.Cap, b.Cap))
	case RefV:
		return smt.Eq(a.T, y.(RefV).T)
	case AnyV:
		if b, ok := y.(AnyV); ok {
			return smt.Eq(a.T, b.T)
		}
	case PtrV:
		b := y.(PtrV)
		if a.Ref != nil && b.Ref != nil {
			return smt.Eq(a.Ref, b.Ref)
		}
	case StructV:
		b := y.(StructV)
		var cs []*smt.Term
		for i := range a.Fields {
			cs = append(cs, e.valueEq(a.Fields[i], b.Fields[i], ident))
		}
		return smt.And(cs...)
	}
	panic(fmt.Sprintf("cannot compare %T with %T", x, y))
}

func (e *Engine) evalCall(env *Env, n *cexpr.Node) Value {
	callee := n.Args[0]
	args := n.Args[1:]
	if callee.Kind == "sel" {
		switch callee.Name {
		case "Len", "Top", "At", "Push", "Pop", "SetTop":
			if sq, ok := e.eval(env, callee.Args[0]).(SeqV); ok {
				var a *smt.Term
				if len(args) > 0 {
					a = e.evalInt(env, args[0])
				}
				switch callee.Name {
				case "Len":
					return IntV{sq.Len}
				case "Top":
					return IntV{smt.Select(sq.Arr, smt.Sub(sq.Len, smt.IntC(1)))}
				case "At":
					return IntV{smt.Select(sq.Arr, a)}
				case "Push":
					return SeqV{Arr: smt.Store(sq.Arr, sq.Len, a), Len: smt.Add(sq.Len, smt.IntC(1))}
				case "Pop":
					return SeqV{Arr: sq.Arr, Len: smt.Sub(sq.Len, smt.IntC(1))}
				case "SetTop":
					return SeqV{Arr: smt.Store(sq.Arr, smt.Sub(sq.Len, smt.IntC(1)), a), Len: sq.Len}
				}
			}
		}
	}
	f := e.eval(env, callee)
	fr, ok := f.(FuncRefV)
	if !ok {
		if tv, ok := f.(TypeV); ok && len(args) == 1 {
			// conversion T(x): integers only
			v := e.eval(env, args[0])
			if iv, ok := v.(IntV); ok && shapeOf(tv.T) == shInt {
				return IntV{wrap(tv.T, iv.T)}
			}
			return v
		}
		panic(fmt.Sprintf("%s is not callable", callee))
	}
	if fr.Pred != nil {
		if len(args) != len(fr.Pred.Params) {
			panic(fmt.Sprintf("predicate %s expects %d arguments", fr.Pred.Name, len(fr.Pred.Params)))
		}
		c := env.child()
		for i, p := range fr.Pred.Params {
			c.vars[p] = e.eval(env, args[i])
		}
		if fr.Pred.Pkg != "" {
			if sp := e.SSAPkgs[fr.Pred.Pkg]; sp != nil {
				c.pkg = sp // a predicate's free names are resolved in the package that defines it
			}
		}
		// the predicate body sees only its parameters (and package-level names), not the caller's locals
		c.frame = nil
		return e.eval(c, fr.Pred.Body)
	}
	if fr.Fn != nil && fr.Name == "unfold" {
		vals := make([]Value, len(args))
		for i, a := range args {
			vals[i] = e.eval(env, a)
			if i < fr.Fn.Signature.Params().Len() {
				vals[i] = e.coerce(vals[i], fr.Fn.Signature.Params().At(i).Type())
			}
		}
		return BoolV{e.unfoldInstance(env.st, fr.Fn, vals)}
	}
	if fr.Fn != nil {
		vals := make([]Value, len(args))
		for i, a := range args {
			vals[i] = e.eval(env, a)
			vals[i] = e.coerce(vals[i], fr.Fn.Signature.Params().At(i).Type())
		}
		return e.callSpec(env.st, fr.Fn, vals)
	}
	switch fr.Name {
	case "len":
		switch x := e.eval(env, args[0]).(type) {
		case SliceV:
			return IntV{x.Len}
		case StrV:
			return IntV{x.Len}
		case SeqV:
			return IntV{x.Len}
		case SnapV:
			return IntV{x.Len}
		}
	case "cap":
		return IntV{e.eval(env, args[0]).(SliceV).Cap}
	case "arrid":
		return IntV{e.eval(env, args[0]).(SliceV).Arr}
	case "abs":
		x := e.evalInt(env, args[0])
		return IntV{smt.Ite(smt.Le(smt.IntC(0), x), x, smt.Neg(x))}
	case "min":
		a, b := e.evalInt(env, args[0]), e.evalInt(env, args[1])
		return IntV{smt.Ite(smt.Le(a, b), a, b)}
	case "max":
		a, b := e.evalInt(env, args[0]), e.evalInt(env, args[1])
		return IntV{smt.Ite(smt.Le(a, b), b, a)}
	case "int64", "uint64", "int", "byte":
		return e.eval(env, args[0])
	case "isnil":
		return BoolV{e.valueEq(e.eval(env, args[0]), NilV{}, false)}
	case "ident":
		return BoolV{e.valueEq(e.eval(env, args[0]), e.eval(env, args[1]), true)}
	case "fresh":
		// fresh(x): array id of x was allocated during this call
		x := e.eval(env, args[0])
		var id *smt.Term
		switch v := x.(type) {
		case SliceV:
			id = v.Arr
		case RefV:
			id = v.T
		case PtrV:
			id = v.Ref
		}
		return BoolV{smt.Le(env.old.alloc, id)}
	case "allocated":
		x := e.eval(env, args[0])
		var id *smt.Term
		switch v := x.(type) {
		case SliceV:
			id = v.Arr
		case RefV:
			id = v.T
		case PtrV:
			id = v.Ref
		}
		return BoolV{smt.Lt(id, env.st.alloc)}
	case "unchanged":
		// unchanged(s): the backing array contents of slice s equal those at entry
		x := e.eval(env, args[0]).(SliceV)
		var cs []*smt.Term
		for _, l := range leavesOf(x.Elem) {
			name := elemHeapName(x.Elem, l.Suffix)
			srt := smt.ArrayOf(smt.ArrayOf(l.Sort))
			cs = append(cs, smt.Eq(smt.Select(env.st.heap(name, srt), x.Arr), smt.Select(smt.Var(fmt.Sprintf("%s@%d", name, 0), srt), x.Arr)))
		}
		return BoolV{smt.And(cs...)}
	case "as":
		// as(x, T): view interface value x as *T (pointer payload)
		x := e.eval(env, args[0]).(AnyV)
		tv, ok := e.eval(env, args[1]).(TypeV)
		if !ok {
			panic("as: second argument must be a type")
		}
		return PtrV{Ref: smt.AppS("val_r", smt.Int, x.T), Base: tv.T, Elem: tv.T}
	case "typeis":
		x := e.eval(env, args[0]).(AnyV)
		var t types.Type
		if tn, ok := types.Universe.Lookup(args[1].Name).(*types.TypeName); ok && args[1].Kind == "ident" {
			t = tn.Type() // predeclared type (int64, uint8, float32, ...)
		} else {
			t = e.eval(env, args[1]).(TypeV).T
		}
		if len(args) > 2 {
			t = types.NewPointer(t)
		}
		return BoolV{anyIs(x.T, t)}
	case "snap":
		// snap(s): immutable snapshot of the current contents of a slice with single-leaf elements
		x := e.eval(env, args[0]).(SliceV)
		ls := leavesOf(x.Elem)
		if len(ls) != 1 {
			panic("snap: element type must have a single leaf")
		}
		name := elemHeapName(x.Elem, ls[0].Suffix)
		h := env.st.heap(name, smt.ArrayOf(smt.ArrayOf(ls[0].Sort)))
		return SnapV{Arr: smt.Select(h, x.Arr), Off: x.Off, Len: x.Len, Elem: x.Elem}
	case "ismap":
		return BoolV{anyIs(e.eval(env, args[0]).(AnyV).T, types.NewMap(types.Typ[types.String], types.Universe.Lookup("any").Type()))}
	case "anyref":
		return IntV{smt.AppS("val_r", smt.Int, e.eval(env, args[0]).(AnyV).T)}
	case "isint64":
		return BoolV{anyIs(e.eval(env, args[0]).(AnyV).T, types.Typ[types.Int64])}
	case "isfloat64":
		return BoolV{anyIs(e.eval(env, args[0]).(AnyV).T, types.Typ[types.Float64])}
	case "isstring":
		return BoolV{anyIs(e.eval(env, args[0]).(AnyV).T, types.Typ[types.String])}
	case "isbool":
		return BoolV{anyIs(e.eval(env, args[0]).(AnyV).T, types.Typ[types.Bool])}
	case "anyint":
		return IntV{smt.AppS("val_i", smt.Int, e.eval(env, args[0]).(AnyV).T)}
	case "anybool":
		return BoolV{smt.AppS("val_b", smt.Bool, e.eval(env, args[0]).(AnyV).T)}
	case "anyslice":
		// anyslice(x, s): the slice held by interface value x, viewed with the slice type of s
		like := e.eval(env, args[1]).(SliceV)
		a := e.eval(env, args[0]).(AnyV).T
		return SliceV{Arr: smt.AppS("arr_l", smt.Int, a), Off: smt.AppS("off_l", smt.Int, a), Len: smt.AppS("len_l", smt.Int, a), Cap: smt.AppS("cap_l", smt.Int, a), Elem: like.Elem}
	case "sametype":
		// sametype(x, y): two interface values of the same dynamic type (same representation and type id)
		a, b := e.eval(env, args[0]).(AnyV).T, e.eval(env, args[1]).(AnyV).T
		return BoolV{smt.And(smt.Eq(smt.App("any_tid", smt.Int, a), smt.App("any_tid", smt.Int, b)),
			smt.Eq(smt.AppS("is-any_slice", smt.Bool, a), smt.AppS("is-any_slice", smt.Bool, b)),
			smt.Eq(smt.AppS("is-any_ref", smt.Bool, a), smt.AppS("is-any_ref", smt.Bool, b)))}
	case "anyfloat":
		return FloatV{smt.AppS("val_f", smt.F64, e.eval(env, args[0]).(AnyV).T)}
	case "float64":
		// float64(i): Go's conversion of an integer (the executor's f64_of_int); a float argument is returned unchanged
		switch v := e.eval(env, args[0]).(type) {
		case IntV:
			return FloatV{smt.App("f64_of_int", smt.F64, v.T)}
		case FloatV:
			return v
		}
		panic("float64: integer or float argument expected")
	case "feq":
		// feq(a, b): Go's == on float64 (not term identity: NaN != NaN)
		return BoolV{smt.App("f64_eq", smt.Bool, e.eval(env, args[0]).(FloatV).T, e.eval(env, args[1]).(FloatV).T)}
	case "uf":
		// uf("name", x, ...): an uninterpreted boolean function of interface values (the deterministic result of a trusted callee)
		if args[0].Kind != "str" {
			panic("uf: first argument must be a string literal")
		}
		name := "uf_" + args[0].Val
		var ts []*smt.Term
		var ss []smt.Sort
		for _, a := range args[1:] {
			ts = append(ts, e.eval(env, a).(AnyV).T)
			ss = append(ss, smt.Any)
		}
		if _, ok := smt.FunDecls[name]; !ok {
			smt.DeclareFun(name, ss, smt.Bool)
		}
		return BoolV{smt.App(name, smt.Bool, ts...)}
	case "anystr":
		a := e.eval(env, args[0]).(AnyV).T
		return StrV{smt.AppS("arr_s", smt.IArr, a), smt.AppS("off_s", smt.Int, a), smt.AppS("len_s", smt.Int, a)}
	case "str":
		// str(slice): the string view of a byte slice's current contents
		x := e.eval(env, args[0]).(SliceV)
		return StrV{Arr: e.elemArr(env.st, x), Off: x.Off, Len: x.Len}
	}
	panic("unknown contract function " + fr.Name)
}

// coerce adapts contract values to a spec function's parameter type.
func (e *Engine) coerce(v Value, t types.Type) Value {
	switch x := v.(type) {
	case StrV:
		if shapeOf(t) == shSeq {
			if x.Off.IsConst() && x.Off.Val.Sign() == 0 {
				return SeqV{Arr: x.Arr, Len: x.Len}
			}
		}
	case NilV:
		return zeroValue(t)
	}
	return v
}

// constant helper
func constInt(v constant.Value) *big.Int {
	bi, _ := constant.Val(constant.ToInt(v)).(*big.Int)
	if bi != nil {
		return bi
	}
	i, _ := constant.Int64Val(constant.ToInt(v))
	return big.NewInt(i)
}
