// Package symex is the verification-condition generator: symbolic execution of
// go/ssa (naive form) functions against contracts, producing SMT obligations.
package symex

import (
	"crypto/sha256"
	"encoding/binary"
	"fmt"
	"go/types"
	"math/big"
	"strings"

	"golang.org/x/tools/go/ssa"

	"verif/internal/smt"
)

// Value is a symbolic Go value.
type Value interface{}

// IntV is any integer-kinded value (mathematical integer term).
type IntV struct{ T *smt.Term }

// BoolV is a boolean.
type BoolV struct{ T *smt.Term }

// FloatV is a float64/float32 (abstract sort F64).
type FloatV struct{ T *smt.Term }

// StrV is a string: a window (Off, Len) into an immutable contents array.
type StrV struct{ Arr, Off, Len *smt.Term }

// SliceV is a slice header over the element heap of Elem.
type SliceV struct {
	Arr, Off, Len, Cap *smt.Term
	Elem               types.Type
}

// RefV is a map, chan, func or opaque reference (Int id; 0 is nil).
type RefV struct {
	T   *smt.Term
	Typ types.Type
}

// AnyV is an interface value (SMT datatype Any).
type AnyV struct{ T *smt.Term }

// StructV is a struct value (fields in declaration order).
type StructV struct {
	Typ    types.Type
	Fields []Value
}

// TupleV is a multi-value result.
type TupleV []Value

// SeqV is the spec prelude sequence type.
type SeqV struct{ Arr, Len *smt.Term }

// PtrV is a pointer. Exactly one addressing mode is used.
type PtrV struct {
	// Heap object (struct allocated on the heap / receiver): Ref != nil.
	Ref  *smt.Term
	Base types.Type // the named struct type owning the field heaps
	Path []int      // field index path from Base to the pointee
	// Local cell: Cell != nil, Path addresses inside the cell's value.
	Cell *Cell
	// Slice element: Slice != nil
	Slice *SliceV
	Idx   *smt.Term
	// Global variable
	Global *ssa.Global
	// Pointee type
	Elem types.Type
	// IsArr: pointer to a whole array living in the element heap (Slice describes it)
	IsArr bool
	// IsNilable: plain pointer value that may be nil (Ref==0)
}

// Cell is a local variable cell identity.
type Cell struct {
	Name string
	Typ  types.Type
	id   int
}

var cellCtr int

func newCell(name string, t types.Type) *Cell {
	cellCtr++
	return &Cell{Name: name, Typ: t, id: cellCtr}
}

// IterV is a map/string range iterator.
type IterV struct {
	X      Value
	IsStr  bool
	Idx    *smt.Term
	Unroll int
}

// ---------------------------------------------------------------------------
// Type ids for interface payloads.

var typeIDs = map[string]int64{}
var typeByID = map[int64]types.Type{}

func typeID(t types.Type) int64 {
	k := types.TypeString(t, nil)
	if id, ok := typeIDs[k]; ok {
		return id
	}
	// a stable id (a hash of the type's name), so that the verification conditions of a function do not depend on the
	// order in which types were first met in the run; two types with the same id would be a soundness problem: checked
	hs := sha256.Sum256([]byte(k))
	id := 1000 + int64(binary.BigEndian.Uint32(hs[:4]))
	for other, oid := range typeIDs {
		if oid == id && other != k {
			panic("type id collision between " + other + " and " + k)
		}
	}
	typeIDs[k] = id
	typeByID[id] = t
	return id
}

// shape classifies a Go type by its representation.
type shape int

const (
	shInt shape = iota
	shBool
	shFloat
	shStr
	shSlice
	shRef // map chan func unsafe.Pointer
	shPtr
	shAny
	shStruct
	shTuple
	shSeq
	shArray
)

func isSeqType(t types.Type) bool {
	if n, ok := t.(*types.Named); ok {
		return n.Obj().Name() == "Seq" && n.Obj().Pkg() != nil && strings.HasSuffix(n.Obj().Pkg().Path(), "verif/spec")
	}
	return false
}

func shapeOf(t types.Type) shape {
	if isSeqType(t) {
		return shSeq
	}
	switch u := t.Underlying().(type) {
	case *types.Basic:
		switch {
		case u.Info()&types.IsBoolean != 0:
			return shBool
		case u.Info()&types.IsInteger != 0:
			return shInt
		case u.Info()&types.IsFloat != 0:
			return shFloat
		case u.Info()&types.IsString != 0:
			return shStr
		case u.Kind() == types.UnsafePointer:
			return shRef
		case u.Kind() == types.UntypedNil:
			return shRef
		}
	case *types.Slice:
		return shSlice
	case *types.Map, *types.Chan, *types.Signature:
		return shRef
	case *types.Pointer:
		return shPtr
	case *types.Interface:
		return shAny
	case *types.Struct:
		return shStruct
	case *types.Tuple:
		return shTuple
	case *types.Array:
		return shArray
	}
	panic(unsupported("type " + t.String()))
}

// intRange returns the value range of an integer type.
func intRange(t types.Type) (lo, hi *big.Int) {
	b, ok := t.Underlying().(*types.Basic)
	if !ok {
		panic("intRange of non-basic " + t.String())
	}
	p := func(bits uint) *big.Int { return new(big.Int).Lsh(big.NewInt(1), bits) }
	one := big.NewInt(1)
	switch b.Kind() {
	case types.Int8:
		return new(big.Int).Neg(p(7)), new(big.Int).Sub(p(7), one)
	case types.Int16:
		return new(big.Int).Neg(p(15)), new(big.Int).Sub(p(15), one)
	case types.Int32:
		return new(big.Int).Neg(p(31)), new(big.Int).Sub(p(31), one)
	case types.Int, types.Int64, types.UntypedInt, types.UntypedRune:
		return new(big.Int).Neg(p(63)), new(big.Int).Sub(p(63), one)
	case types.Uint8:
		return big.NewInt(0), new(big.Int).Sub(p(8), one)
	case types.Uint16:
		return big.NewInt(0), new(big.Int).Sub(p(16), one)
	case types.Uint32:
		return big.NewInt(0), new(big.Int).Sub(p(32), one)
	case types.Uint, types.Uint64, types.Uintptr:
		return big.NewInt(0), new(big.Int).Sub(p(64), one)
	}
	panic("intRange of " + t.String())
}

func isSigned(t types.Type) bool {
	b := t.Underlying().(*types.Basic)
	return b.Info()&types.IsUnsigned == 0
}

// exactInt reports whether arithmetic on t is modelled exactly with overflow
// obligations (int, int64) instead of wrap-around.
func exactInt(t types.Type) bool {
	b, ok := t.Underlying().(*types.Basic)
	if !ok {
		return false
	}
	switch b.Kind() {
	case types.Int, types.Int64, types.UntypedInt:
		return true
	}
	return false
}

// ---------------------------------------------------------------------------
// Leaves: flattening of a type into SMT-sorted components.

type leaf struct {
	Suffix string
	Sort   smt.Sort
}

var leafCache = map[string][]leaf{}

func leavesOf(t types.Type) []leaf {
	k := types.TypeString(t, nil)
	if l, ok := leafCache[k]; ok {
		return l
	}
	var out []leaf
	switch shapeOf(t) {
	case shInt, shRef, shPtr:
		out = []leaf{{"", smt.Int}}
	case shBool:
		out = []leaf{{"", smt.Bool}}
	case shFloat:
		out = []leaf{{"", smt.F64}}
	case shStr:
		out = []leaf{{"#arr", smt.IArr}, {"#off", smt.Int}, {"#len", smt.Int}}
	case shSeq:
		out = []leaf{{"#arr", smt.IArr}, {"#len", smt.Int}}
	case shSlice:
		out = []leaf{{"#arr", smt.Int}, {"#off", smt.Int}, {"#len", smt.Int}, {"#cap", smt.Int}}
	case shAny:
		out = []leaf{{"", smt.Any}}
	case shStruct:
		st := t.Underlying().(*types.Struct)
		for i := 0; i < st.NumFields(); i++ {
			f := st.Field(i)
			for _, l := range leavesOf(f.Type()) {
				out = append(out, leaf{"." + f.Name() + l.Suffix, l.Sort})
			}
		}
	case shArray:
		// arrays are modelled as one IArr-like leaf per element leaf (Array Int sort)
		at := t.Underlying().(*types.Array)
		for _, l := range leavesOf(at.Elem()) {
			out = append(out, leaf{"[]" + l.Suffix, smt.ArrayOf(l.Sort)})
		}
	default:
		panic(unsupported("leaves of " + t.String()))
	}
	leafCache[k] = out
	return out
}

// ArrayV is a Go array value: per element leaf an SMT array.
type ArrayV struct {
	Typ    types.Type
	Leaves []*smt.Term
}

// toLeaves flattens v (of type t) into leaf terms, in leavesOf order.
func toLeaves(t types.Type, v Value) []*smt.Term {
	switch x := v.(type) {
	case IntV:
		return []*smt.Term{x.T}
	case BoolV:
		return []*smt.Term{x.T}
	case FloatV:
		return []*smt.Term{x.T}
	case StrV:
		return []*smt.Term{x.Arr, x.Off, x.Len}
	case SeqV:
		return []*smt.Term{x.Arr, x.Len}
	case SliceV:
		return []*smt.Term{x.Arr, x.Off, x.Len, x.Cap}
	case RefV:
		return []*smt.Term{x.T}
	case AnyV:
		return []*smt.Term{x.T}
	case PtrV:
		if x.Ref != nil && len(x.Path) == 0 {
			return []*smt.Term{x.Ref}
		}
		panic(unsupported("storing an interior/local pointer"))
	case StructV:
		st := t.Underlying().(*types.Struct)
		var out []*smt.Term
		for i := 0; i < st.NumFields(); i++ {
			out = append(out, toLeaves(st.Field(i).Type(), x.Fields[i])...)
		}
		return out
	case ArrayV:
		return x.Leaves
	}
	panic(fmt.Sprintf("toLeaves: unexpected value %T for %s", v, t))
}

// fromLeaves rebuilds a value of type t from leaf terms.
func fromLeaves(t types.Type, ls []*smt.Term) Value {
	v, rest := fromLeaves1(t, ls)
	if len(rest) != 0 {
		panic("fromLeaves: leftover leaves")
	}
	return v
}

func fromLeaves1(t types.Type, ls []*smt.Term) (Value, []*smt.Term) {
	switch shapeOf(t) {
	case shInt:
		return IntV{ls[0]}, ls[1:]
	case shBool:
		return BoolV{ls[0]}, ls[1:]
	case shFloat:
		return FloatV{ls[0]}, ls[1:]
	case shStr:
		return StrV{ls[0], ls[1], ls[2]}, ls[3:]
	case shSeq:
		return SeqV{ls[0], ls[1]}, ls[2:]
	case shSlice:
		return SliceV{Arr: ls[0], Off: ls[1], Len: ls[2], Cap: ls[3], Elem: t.Underlying().(*types.Slice).Elem()}, ls[4:]
	case shRef:
		return RefV{T: ls[0], Typ: t}, ls[1:]
	case shPtr:
		pt := t.Underlying().(*types.Pointer)
		return PtrV{Ref: ls[0], Base: pt.Elem(), Elem: pt.Elem()}, ls[1:]
	case shAny:
		return AnyV{ls[0]}, ls[1:]
	case shStruct:
		st := t.Underlying().(*types.Struct)
		sv := StructV{Typ: t}
		for i := 0; i < st.NumFields(); i++ {
			var f Value
			f, ls = fromLeaves1(st.Field(i).Type(), ls)
			sv.Fields = append(sv.Fields, f)
		}
		return sv, ls
	case shArray:
		n := len(leavesOf(t))
		return ArrayV{Typ: t, Leaves: ls[:n]}, ls[n:]
	}
	panic(unsupported("fromLeaves of " + t.String()))
}

// zeroValue returns the Go zero value of t.
func zeroValue(t types.Type) Value {
	switch shapeOf(t) {
	case shInt:
		return IntV{smt.IntC(0)}
	case shBool:
		return BoolV{smt.False}
	case shFloat:
		return FloatV{smt.App("f64_zero", smt.F64)}
	case shStr:
		return StrV{emptyArr(), smt.IntC(0), smt.IntC(0)}
	case shSeq:
		return SeqV{emptyArr(), smt.IntC(0)}
	case shSlice:
		z := smt.IntC(0)
		return SliceV{Arr: z, Off: z, Len: z, Cap: z, Elem: t.Underlying().(*types.Slice).Elem()}
	case shRef:
		return RefV{T: smt.IntC(0), Typ: t}
	case shPtr:
		pt := t.Underlying().(*types.Pointer)
		return PtrV{Ref: smt.IntC(0), Base: pt.Elem(), Elem: pt.Elem()}
	case shAny:
		return AnyV{anyNil()}
	case shStruct:
		st := t.Underlying().(*types.Struct)
		sv := StructV{Typ: t}
		for i := 0; i < st.NumFields(); i++ {
			sv.Fields = append(sv.Fields, zeroValue(st.Field(i).Type()))
		}
		return sv
	case shArray:
		av := ArrayV{Typ: t}
		at := t.Underlying().(*types.Array)
		for _, zl := range toLeaves(at.Elem(), zeroValue(at.Elem())) {
			av.Leaves = append(av.Leaves, smt.ConstArr(smt.ArrayOf(zl.S), zl))
		}
		return av
	}
	panic(unsupported("zero of " + t.String()))
}

func emptyArr() *smt.Term { return smt.ConstArr(smt.IArr, smt.IntC(0)) }

// freshValue returns an unconstrained symbolic value of type t. Range facts
// are returned separately.
func freshValue(hint string, t types.Type) (Value, []*smt.Term) {
	ls := leavesOf(t)
	ts := make([]*smt.Term, len(ls))
	for i, l := range ls {
		ts[i] = smt.Fresh(hint+l.Suffix, l.Sort)
	}
	v := fromLeaves(t, ts)
	return v, typeFacts(t, v)
}

var (
	maxLen = new(big.Int).Lsh(big.NewInt(1), 40) // assumption A-LEN
)

// typeFacts returns the facts every well-typed value of type t satisfies.
func typeFacts(t types.Type, v Value) []*smt.Term {
	var out []*smt.Term
	switch x := v.(type) {
	case IntV:
		if _, ok := t.Underlying().(*types.Basic); ok && shapeOf(t) == shInt {
			lo, hi := intRange(t)
			out = append(out, smt.Le(smt.BigC(lo), x.T), smt.Le(x.T, smt.BigC(hi)))
		}
	case StrV:
		out = append(out, smt.Le(smt.IntC(0), x.Len), smt.Le(x.Len, smt.BigC(maxLen)), smt.Le(smt.IntC(0), x.Off), smt.Le(x.Off, smt.BigC(maxLen)))
		if x.Arr.Op == "var" {
			// every element of a string's contents is a byte
			a := smt.Var("a!byte", smt.Int)
			sel := smt.Select(x.Arr, a)
			out = append(out, smt.Forall([]*smt.Term{a}, smt.And(smt.Le(smt.IntC(0), sel), smt.Le(sel, smt.IntC(255))), sel))
		}
	case SeqV:
		out = append(out, smt.Le(smt.IntC(0), x.Len))
	case SliceV:
		z := smt.IntC(0)
		out = append(out, smt.Le(z, x.Len), smt.Le(x.Len, x.Cap), smt.Le(x.Cap, smt.BigC(maxLen)), smt.Le(z, x.Off), smt.Le(z, x.Arr),
			smt.Implies(smt.Eq(x.Arr, z), smt.Eq(x.Cap, z)))
	case RefV:
		out = append(out, smt.Le(smt.IntC(0), x.T))
	case PtrV:
		if x.Ref != nil {
			out = append(out, smt.Le(smt.IntC(0), x.Ref))
		}
	case StructV:
		st := t.Underlying().(*types.Struct)
		for i := 0; i < st.NumFields(); i++ {
			out = append(out, typeFacts(st.Field(i).Type(), x.Fields[i])...)
		}
	}
	return out
}

// mergeValues builds ite(c, a, b) structurally.
func mergeValues(c *smt.Term, a, b Value) Value {
	if c == smt.True {
		return a
	}
	if c == smt.False {
		return b
	}
	switch x := a.(type) {
	case IntV:
		return IntV{smt.Ite(c, x.T, b.(IntV).T)}
	case BoolV:
		return BoolV{smt.Ite(c, x.T, b.(BoolV).T)}
	case FloatV:
		return FloatV{smt.Ite(c, x.T, b.(FloatV).T)}
	case StrV:
		y := b.(StrV)
		return StrV{smt.Ite(c, x.Arr, y.Arr), smt.Ite(c, x.Off, y.Off), smt.Ite(c, x.Len, y.Len)}
	case SeqV:
		y := b.(SeqV)
		return SeqV{smt.Ite(c, x.Arr, y.Arr), smt.Ite(c, x.Len, y.Len)}
	case SliceV:
		y := b.(SliceV)
		return SliceV{smt.Ite(c, x.Arr, y.Arr), smt.Ite(c, x.Off, y.Off), smt.Ite(c, x.Len, y.Len), smt.Ite(c, x.Cap, y.Cap), x.Elem}
	case RefV:
		return RefV{smt.Ite(c, x.T, b.(RefV).T), x.Typ}
	case AnyV:
		return AnyV{smt.Ite(c, x.T, b.(AnyV).T)}
	case StructV:
		y := b.(StructV)
		r := StructV{Typ: x.Typ}
		for i := range x.Fields {
			r.Fields = append(r.Fields, mergeValues(c, x.Fields[i], y.Fields[i]))
		}
		return r
	case TupleV:
		y := b.(TupleV)
		r := make(TupleV, len(x))
		for i := range x {
			r[i] = mergeValues(c, x[i], y[i])
		}
		return r
	case PtrV:
		y := b.(PtrV)
		if x.Ref != nil && y.Ref != nil && len(x.Path) == 0 && len(y.Path) == 0 {
			return PtrV{Ref: smt.Ite(c, x.Ref, y.Ref), Base: x.Base, Elem: x.Elem}
		}
	case ArrayV:
		y := b.(ArrayV)
		r := ArrayV{Typ: x.Typ}
		for i := range x.Leaves {
			r.Leaves = append(r.Leaves, smt.Ite(c, x.Leaves[i], y.Leaves[i]))
		}
		return r
	case nil:
		return nil
	}
	panic(unsupported(fmt.Sprintf("merge of %T", a)))
}

// Unsupported is the panic value for constructs outside the subset.
type Unsupported struct{ Msg string }

func (u Unsupported) Error() string { return "outside subset: " + u.Msg }

func unsupported(msg string) Unsupported { return Unsupported{msg} }

// ---------------------------------------------------------------------------
// Any datatype helpers.

func init() {
	InitPrelude()
}

// InitPrelude registers the Any datatype and helper functions.
func InitPrelude() {
	smt.RegisterCtor("any_nil")
	smt.RegisterCtor("any_int", "tid_i", "val_i")
	smt.RegisterCtor("any_bool", "tid_b", "val_b")
	smt.RegisterCtor("any_str", "tid_s", "arr_s", "off_s", "len_s")
	smt.RegisterCtor("any_slice", "tid_l", "arr_l", "off_l", "len_l", "cap_l")
	smt.RegisterCtor("any_f64", "tid_f", "val_f")
	smt.RegisterCtor("any_ref", "tid_r", "val_r")
	smt.Prelude = `(declare-sort F64 0)
(declare-datatypes ((Any 0)) (((any_nil) (any_int (tid_i Int) (val_i Int)) (any_bool (tid_b Int) (val_b Bool)) (any_str (tid_s Int) (arr_s (Array Int Int)) (off_s Int) (len_s Int)) (any_slice (tid_l Int) (arr_l Int) (off_l Int) (len_l Int) (cap_l Int)) (any_f64 (tid_f Int) (val_f F64)) (any_ref (tid_r Int) (val_r Int)))))
(define-fun any_tid ((x Any)) Int (ite ((_ is any_int) x) (tid_i x) (ite ((_ is any_bool) x) (tid_b x) (ite ((_ is any_str) x) (tid_s x) (ite ((_ is any_slice) x) (tid_l x) (ite ((_ is any_f64) x) (tid_f x) (ite ((_ is any_ref) x) (tid_r x) 0)))))))
(define-fun tdiv ((a Int) (b Int)) Int (ite (>= a 0) (ite (> b 0) (div a b) (- (div a (- b)))) (ite (> b 0) (- (div (- a) b)) (div (- a) (- b)))))
(define-fun tmod ((a Int) (b Int)) Int (- a (* b (tdiv a b))))
(define-fun wrapu ((x Int) (m Int)) Int (mod x m))
(define-fun wraps ((x Int) (h Int)) Int (- (mod (+ x h) (* 2 h)) h))
`
	smt.DeclareFun("f64_zero", nil, smt.F64)
	smt.DeclareFun("f64_of_int", []smt.Sort{smt.Int}, smt.F64)
	smt.DeclareFun("f64_to_int", []smt.Sort{smt.F64}, smt.Int)
	smt.DeclareFun("f64_lt", []smt.Sort{smt.F64, smt.F64}, smt.Bool)
	smt.DeclareFun("f64_le", []smt.Sort{smt.F64, smt.F64}, smt.Bool)
	smt.DeclareFun("f64_eq", []smt.Sort{smt.F64, smt.F64}, smt.Bool)
	smt.DeclareFun("f64_add", []smt.Sort{smt.F64, smt.F64}, smt.F64)
	smt.DeclareFun("f64_sub", []smt.Sort{smt.F64, smt.F64}, smt.F64)
	smt.DeclareFun("f64_mul", []smt.Sort{smt.F64, smt.F64}, smt.F64)
	smt.DeclareFun("f64_div", []smt.Sort{smt.F64, smt.F64}, smt.F64)
	smt.DeclareFun("f64_neg", []smt.Sort{smt.F64}, smt.F64)
	smt.DeclareFun("f64_const", []smt.Sort{smt.Int}, smt.F64)
}

func anyNil() *smt.Term { return smt.App("any_nil", smt.Any) }

// toAny wraps a concrete value of static type t into an interface value.
func toAny(t types.Type, v Value) *smt.Term {
	tid := smt.IntC(typeID(t))
	switch x := v.(type) {
	case IntV:
		return smt.App("any_int", smt.Any, tid, x.T)
	case BoolV:
		return smt.App("any_bool", smt.Any, tid, x.T)
	case FloatV:
		return smt.App("any_f64", smt.Any, tid, x.T)
	case StrV:
		return smt.App("any_str", smt.Any, tid, x.Arr, x.Off, x.Len)
	case SliceV:
		return smt.App("any_slice", smt.Any, tid, x.Arr, x.Off, x.Len, x.Cap)
	case RefV:
		return smt.App("any_ref", smt.Any, tid, x.T)
	case PtrV:
		if x.Ref != nil && len(x.Path) == 0 {
			return smt.App("any_ref", smt.Any, tid, x.Ref)
		}
	case StructV:
		// boxed opaque struct value: identity from its leaves via an uninterpreted box
		ls := toLeaves(t, v)
		name := "box_" + smt.Mangle(types.TypeString(t, nil))
		if _, ok := smt.FunDecls[name]; !ok {
			var as []smt.Sort
			for _, l := range ls {
				as = append(as, l.S)
			}
			smt.DeclareFun(name, as, smt.Int)
		}
		return smt.App("any_ref", smt.Any, tid, smt.App(name, smt.Int, ls...))
	case AnyV:
		return x.T
	}
	panic(unsupported(fmt.Sprintf("MakeInterface of %T (%s)", v, t)))
}

// anyIs returns the condition that interface value a holds dynamic type t.
func anyIs(a *smt.Term, t types.Type) *smt.Term {
	tid := smt.IntC(typeID(t))
	switch shapeOf(t) {
	case shInt:
		return smt.And(smt.AppS("is-any_int", smt.Bool, a), smt.Eq(smt.AppS("tid_i", smt.Int, a), tid))
	case shBool:
		return smt.And(smt.AppS("is-any_bool", smt.Bool, a), smt.Eq(smt.AppS("tid_b", smt.Int, a), tid))
	case shFloat:
		return smt.And(smt.AppS("is-any_f64", smt.Bool, a), smt.Eq(smt.AppS("tid_f", smt.Int, a), tid))
	case shStr:
		return smt.And(smt.AppS("is-any_str", smt.Bool, a), smt.Eq(smt.AppS("tid_s", smt.Int, a), tid))
	case shSlice:
		return smt.And(smt.AppS("is-any_slice", smt.Bool, a), smt.Eq(smt.AppS("tid_l", smt.Int, a), tid))
	case shRef, shPtr, shStruct:
		return smt.And(smt.AppS("is-any_ref", smt.Bool, a), smt.Eq(smt.AppS("tid_r", smt.Int, a), tid))
	}
	panic(unsupported("type test for " + t.String()))
}

// fromAny extracts the payload of dynamic type t from interface value a.
func fromAny(a *smt.Term, t types.Type) Value {
	switch shapeOf(t) {
	case shInt:
		return IntV{smt.AppS("val_i", smt.Int, a)}
	case shBool:
		return BoolV{smt.AppS("val_b", smt.Bool, a)}
	case shFloat:
		return FloatV{smt.AppS("val_f", smt.F64, a)}
	case shStr:
		return StrV{smt.AppS("arr_s", smt.IArr, a), smt.AppS("off_s", smt.Int, a), smt.AppS("len_s", smt.Int, a)}
	case shSlice:
		return SliceV{Arr: smt.AppS("arr_l", smt.Int, a), Off: smt.AppS("off_l", smt.Int, a), Len: smt.AppS("len_l", smt.Int, a), Cap: smt.AppS("cap_l", smt.Int, a), Elem: t.Underlying().(*types.Slice).Elem()}
	case shRef:
		return RefV{T: smt.AppS("val_r", smt.Int, a), Typ: t}
	case shPtr:
		pt := t.Underlying().(*types.Pointer)
		return PtrV{Ref: smt.AppS("val_r", smt.Int, a), Base: pt.Elem(), Elem: pt.Elem()}
	case shStruct:
		// opaque: fresh fields determined by the box id
		v, _ := freshValue("unbox", t)
		return v
	}
	panic(unsupported("payload of " + t.String()))
}
