package symex

import (
	"fmt"
	"go/token"
	"go/types"
	"sort"
	"strings"

	"golang.org/x/tools/go/ssa"

	"verif/internal/contract"
	"verif/internal/smt"
)

// execCall executes a call; it may fork when the callee is inlined.
func (e *Engine) execCall(st *State, c *ssa.CallCommon, instr ssa.Instruction, pos token.Pos) []outcome {
	one := func(v Value) []outcome { return []outcome{{st: st, result: v}} }
	name := callName(c)
	st.fr.callCount[name]++
	ord := st.fr.callCount[name] - 1
	_ = ord
	if c.IsInvoke() {
		recv := e.get(st, c.Value).(AnyV)
		e.safety(st, "nil-deref", smt.Ne(recv.T, anyNil()), pos)
		key := recvString(c.Value.Type()) + "." + c.Method.Name()
		if fc, ok := e.IfaceSpec[key]; ok {
			args := []Value{recv}
			for _, a := range c.Args {
				args = append(args, e.get(st, a))
			}
			sig := c.Method.Type().(*types.Signature)
			return one(e.applyContract(st, fc, nil, sig, args, instr, pos, name))
		}
		e.note("opaque interface call " + key + " (A-CB: no effect on verified state)")
		return one(e.opaqueResult(st, c.Signature().Results(), name))
	}
	switch f := c.Value.(type) {
	case *ssa.Builtin:
		if f.Name() == "append" && e.cur != nil && e.cur.fc != nil && e.cur.fc.Opts["forkappend"] != "" && st.fr.parent == nil {
			// fork on "fits in place" so that each path sees one array, not an ite of two
			if s, ok := e.get(st, c.Args[0]).(SliceV); ok && !(e.cur.fc.Opts["forkappend"] == "nonbyte" && isByteElem(s.Elem)) {
				var n *smt.Term
				switch x := e.get(st, c.Args[1]).(type) {
				case SliceV:
					n = x.Len
				case StrV:
					n = x.Len
				}
				if n != nil && !(n.IsConst() && n.Val.Sign() == 0) {
					fits := smt.Le(smt.Add(s.Len, n), s.Cap)
					if !fits.IsBoolConst() {
						s2 := st.clone()
						st.assume(fits)
						st.label("append:inplace")
						e.appendForce = 1
						r1 := e.execBuiltin(st, f, c, instr, pos)
						s2.assume(smt.Not(fits))
						s2.label("append:grow")
						e.appendForce = 2
						r2 := e.execBuiltin(s2, f, c, instr, pos)
						e.appendForce = 0
						return []outcome{{st: st, result: r1}, {st: s2, result: r2}}
					}
				}
			}
		}
		return one(e.execBuiltin(st, f, c, instr, pos))
	case *ssa.Function:
		args := make([]Value, len(c.Args))
		for i, a := range c.Args {
			args[i] = e.get(st, a)
		}
		if v, ok := e.intercept(st, f, args, pos); ok {
			return one(v)
		}
		if _, has := e.Contracts[f]; !has || e.Contracts[f].Inline {
			// call-site assertions apply to callees without contract too
			if ann := e.callAnnotation(st, instr, name); ann != nil {
				cenv := e.funcEnv(st)
				for i, a := range args {
					cenv.vars[fmt.Sprintf("$arg%d", i)] = a
				}
				for _, u := range ann.Uses {
					st.assume(e.evalBool(cenv, u))
				}
				for _, a := range ann.Asserts {
					e.check(st, "assert", "at call "+name+" "+clauseLabel(a), a.Props, e.evalBool(cenv, a.Expr), pos)
				}
			}
		}
		if fc, ok := e.Contracts[f]; ok && !fc.Inline {
			return one(e.applyContract(st, fc, f, f.Signature, args, instr, pos, name))
		}
		if fc, ok := e.Contracts[f]; ok && fc.Inline || e.autoInline(f) {
			return e.inlineCall(st, f, args, pos)
		}
		// opaque static callee
		e.note("unspecified callee " + funcDisplay(f) + ": heaps havoced")
		e.havocForOpaque(st, args)
		return one(e.opaqueResult(st, f.Signature.Results(), name))
	default:
		// func value / closure call: A-CB
		e.note("call through func value at " + e.posString(pos) + " (A-CB: no effect on verified state)")
		fv := e.get(st, c.Value)
		if r, ok := fv.(RefV); ok {
			e.safety(st, "nil-deref", smt.Ne(r.T, smt.IntC(0)), pos)
		}
		return one(e.opaqueResult(st, c.Signature().Results(), name))
	}
}

func (e *Engine) opaqueResult(st *State, res *types.Tuple, hint string) Value {
	switch res.Len() {
	case 0:
		return nil
	case 1:
		v, f := freshValue("ret_"+hint, res.At(0).Type())
		st.assumeFacts(f)
		return v
	}
	t := make(TupleV, res.Len())
	for i := 0; i < res.Len(); i++ {
		v, f := freshValue(fmt.Sprintf("ret%d_%s", i, hint), res.At(i).Type())
		st.assumeFacts(f)
		t[i] = v
	}
	return t
}

// havocForOpaque forgets all heaps (a callee without contract may write anything reachable).
func (e *Engine) havocForOpaque(st *State, args []Value) {
	reach := false
	for _, a := range args {
		switch a.(type) {
		case PtrV, SliceV, RefV, AnyV:
			reach = true
		}
	}
	if reach {
		st.havocAll()
		st.globals = map[*ssa.Global]Value{}
	}
}

// autoInline: small leaf functions without contract in the verified packages.
func (e *Engine) autoInline(f *ssa.Function) bool {
	return false
}

func (e *Engine) inlineCall(st *State, f *ssa.Function, args []Value, pos token.Pos) []outcome {
	if f.Blocks == nil {
		panic(unsupported("inline of external function " + f.String()))
	}
	depth := 0
	for fr := st.fr; fr != nil; fr = fr.parent {
		depth++
		if fr.fn == f {
			panic(unsupported("recursive inline of " + f.String()))
		}
	}
	if depth > 8 {
		panic(unsupported("inline depth"))
	}
	caller := st.fr
	nf := newFrame(f)
	nf.parent = caller
	st.fr = nf
	for i, p := range f.Params {
		nf.regs[p] = args[i]
	}
	st.label("in " + f.Name())
	outs := e.execBlock(st, f.Blocks[0], 0)
	var res []outcome
	for _, o := range outs {
		// restore the caller frame (cloned along with the state)
		o.st.fr = o.st.fr.parent
		res = append(res, o)
	}
	return res
}

func newFrame(fn *ssa.Function) *Frame {
	return &Frame{fn: fn, cells: map[*ssa.Alloc]*Cell{}, regs: map[ssa.Value]Value{}, active: map[*ssa.BasicBlock]*loopAct{},
		lets: map[string]Value{}, ghost: map[string]Value{}, callCount: map[string]int{}}
}

// ---------------------------------------------------------------------------
// Builtins

func (e *Engine) execBuiltin(st *State, f *ssa.Builtin, c *ssa.CallCommon, instr ssa.Instruction, pos token.Pos) Value {
	args := make([]Value, len(c.Args))
	for i, a := range c.Args {
		args[i] = e.get(st, a)
	}
	switch f.Name() {
	case "len":
		switch x := args[0].(type) {
		case SliceV:
			return IntV{x.Len}
		case StrV:
			return IntV{x.Len}
		case RefV:
			r := smt.Fresh("maplen", smt.Int)
			st.assume(smt.Le(smt.IntC(0), r))
			st.assume(smt.Le(r, smt.BigC(maxLen)))
			st.assume(smt.Implies(smt.Eq(x.T, smt.IntC(0)), smt.Eq(r, smt.IntC(0))))
			return IntV{r}
		case ArrayV:
			return IntV{smt.IntC(x.Typ.Underlying().(*types.Array).Len())}
		}
	case "cap":
		if x, ok := args[0].(SliceV); ok {
			return IntV{x.Cap}
		}
	case "append":
		return e.execAppend(st, args, c, pos)
	case "copy":
		return e.execCopy(st, args, pos)
	case "delete":
		return nil
	case "ssa:wrapnilchk":
		p := args[0].(PtrV)
		if p.Ref != nil {
			e.safety(st, "nil-deref", smt.Ne(p.Ref, smt.IntC(0)), pos)
		}
		return p
	case "min", "max":
		a, b := args[0].(IntV).T, args[1].(IntV).T
		if f.Name() == "min" {
			return IntV{smt.Ite(smt.Le(a, b), a, b)}
		}
		return IntV{smt.Ite(smt.Le(a, b), b, a)}
	case "print", "println":
		return nil
	case "ssa:deferstack":
		return RefV{T: smt.IntC(0)}
	}
	panic(unsupported("builtin " + f.Name()))
}

// execAppend implements append(s, elems...) where the second argument is a slice or string.
func (e *Engine) execAppend(st *State, args []Value, c *ssa.CallCommon, pos token.Pos) Value {
	s := args[0].(SliceV)
	var n *smt.Term
	var src Value = args[1]
	switch x := src.(type) {
	case SliceV:
		n = x.Len
	case StrV:
		n = x.Len
	default:
		panic(unsupported("append source"))
	}
	if s.Elem == nil {
		s.Elem = c.Args[0].Type().Underlying().(*types.Slice).Elem()
	}
	newLen := smt.Add(s.Len, n)
	fits := smt.Le(newLen, s.Cap)
	// A-LEN keeps lengths bounded
	st.assume(smt.Le(newLen, smt.BigC(maxLen)))
	// result header
	freshID := st.newID()
	st.assume(smt.Lt(smt.IntC(0), freshID))
	newCap := smt.Fresh("appcap", smt.Int)
	st.assume(smt.Le(newLen, newCap))
	st.assume(smt.Le(newCap, smt.BigC(maxLen)))
	var res SliceV
	inPlace := fits
	switch e.appendForce {
	case 1:
		inPlace = smt.True
	case 2:
		inPlace = smt.False
	}
	if n.IsConst() && n.Val.Sign() == 0 {
		// appending nothing: Go returns s unchanged (when s non-nil or zero)
		return s
	}
	res = SliceV{Arr: smt.Ite(inPlace, s.Arr, freshID), Off: smt.Ite(inPlace, s.Off, smt.IntC(0)), Len: newLen, Cap: smt.Ite(inPlace, s.Cap, newCap), Elem: s.Elem}
	// frame obligation only matters for the in-place case
	ek := typeKey(s.Elem)
	for _, r := range st.ro {
		if r.elemKey == ek {
			e.check(st, "frame", "readonly append "+e.posTag(pos), []string{"SAFETY"}, smt.Implies(inPlace, smt.Ne(s.Arr, r.arr)), pos)
		}
	}
	// contents
	ls := leavesOf(s.Elem)
	for li, l := range ls {
		name := elemHeapName(s.Elem, l.Suffix)
		h := st.heap(name, smt.ArrayOf(smt.ArrayOf(l.Sort)))
		oldArr := smt.Select(h, s.Arr)
		if st.isRO(ek, s.Arr) {
			oldArr = smt.Select(smt.Var(fmt.Sprintf("%s@%d", name, 0), smt.ArrayOf(smt.ArrayOf(l.Sort))), s.Arr)
		}
		var newContents *smt.Term
		single := n.IsConst() && n.Val.IsInt64() && n.Val.Int64() <= 8
		if single {
			// explicit stores
			cnt := n.Val.Int64()
			inp := oldArr
			fr := smt.Fresh("grown"+l.Suffix, smt.ArrayOf(l.Sort))
			// the grown array agrees with the old one on [0, s.Len)
			j := smt.Fresh("j!g", smt.Int)
			selF := smt.Select(fr, j)
			st.assume(smt.Forall([]*smt.Term{j}, smt.Implies(smt.And(smt.Le(smt.IntC(0), j), smt.Lt(j, s.Len)), smt.Eq(selF, smt.Select(oldArr, smt.Add(s.Off, j)))), selF))
			frs := fr
			for k := int64(0); k < cnt; k++ {
				ev := e.srcElem(st, src, smt.IntC(k), s.Elem, li)
				inp = smt.Store(inp, smt.Add(smt.Add(s.Off, s.Len), smt.IntC(k)), ev)
				frs = smt.Store(frs, smt.Add(s.Len, smt.IntC(k)), ev)
			}
			newContents = smt.Ite(inPlace, inp, frs)
		} else {
			// symbolic count: quantified description of the result array
			nc := smt.Fresh("appended"+l.Suffix, smt.ArrayOf(l.Sort))
			j := smt.Fresh("j!a", smt.Int)
			sel := smt.Select(nc, j)
			base := smt.Ite(inPlace, s.Off, smt.IntC(0))
			// old part
			st.assume(smt.Forall([]*smt.Term{j}, smt.Implies(smt.And(smt.Le(base, j), smt.Lt(j, smt.Add(base, s.Len))),
				smt.Eq(sel, smt.Select(oldArr, smt.Add(s.Off, smt.Sub(j, base))))), sel))
			// appended part
			st.assume(smt.Forall([]*smt.Term{j}, smt.Implies(smt.And(smt.Le(smt.Add(base, s.Len), j), smt.Lt(j, smt.Add(base, newLen))),
				smt.Eq(sel, e.srcElem(st, src, smt.Sub(j, smt.Add(base, s.Len)), s.Elem, li))), sel))
			// in place: everything outside the appended window is unchanged
			st.assume(smt.Implies(inPlace, smt.Forall([]*smt.Term{j}, smt.Implies(smt.Or(smt.Lt(j, smt.Add(base, s.Len)), smt.Le(smt.Add(base, newLen), j)),
				smt.Eq(sel, smt.Select(oldArr, j))), sel)))
			newContents = nc
		}
		st.setHeap(name, smt.Store(h, res.Arr, newContents))
	}
	return res
}

// srcElem returns leaf li of element k of an append/copy source.
func (e *Engine) srcElem(st *State, src Value, k *smt.Term, elem types.Type, li int) *smt.Term {
	switch x := src.(type) {
	case StrV:
		return strIndex(x, k)
	case SliceV:
		l := leavesOf(x.Elem)[li]
		name := elemHeapName(x.Elem, l.Suffix)
		var h *smt.Term
		if st.isRO(typeKey(x.Elem), x.Arr) {
			h = smt.Var(fmt.Sprintf("%s@%d", name, 0), smt.ArrayOf(smt.ArrayOf(l.Sort)))
		} else {
			h = st.heap(name, smt.ArrayOf(smt.ArrayOf(l.Sort)))
		}
		return smt.Select(smt.Select(h, x.Arr), smt.Add(x.Off, k))
	}
	panic("srcElem")
}

func (e *Engine) execCopy(st *State, args []Value, pos token.Pos) Value {
	dst := args[0].(SliceV)
	var n *smt.Term
	switch x := args[1].(type) {
	case SliceV:
		n = smt.Ite(smt.Le(dst.Len, x.Len), dst.Len, x.Len)
	case StrV:
		n = smt.Ite(smt.Le(dst.Len, x.Len), dst.Len, x.Len)
	}
	e.frameCheck(st, dst.Elem, dst.Arr, pos)
	ls := leavesOf(dst.Elem)
	// snapshot sources first (copy handles overlap as memmove)
	srcs := make([]func(k *smt.Term) *smt.Term, len(ls))
	for li := range ls {
		li := li
		switch x := args[1].(type) {
		case StrV:
			srcs[li] = func(k *smt.Term) *smt.Term { return strIndex(x, k) }
		case SliceV:
			l := ls[li]
			name := elemHeapName(x.Elem, l.Suffix)
			var h *smt.Term
			if st.isRO(typeKey(x.Elem), x.Arr) {
				h = smt.Var(fmt.Sprintf("%s@%d", name, 0), smt.ArrayOf(smt.ArrayOf(l.Sort)))
			} else {
				h = st.heap(name, smt.ArrayOf(smt.ArrayOf(l.Sort)))
			}
			arr := smt.Select(h, x.Arr)
			srcs[li] = func(k *smt.Term) *smt.Term { return smt.Select(arr, smt.Add(x.Off, k)) }
		}
	}
	for li, l := range ls {
		name := elemHeapName(dst.Elem, l.Suffix)
		h := st.heap(name, smt.ArrayOf(smt.ArrayOf(l.Sort)))
		oldArr := smt.Select(h, dst.Arr)
		nc := smt.Fresh("copied"+l.Suffix, smt.ArrayOf(l.Sort))
		j := smt.Fresh("j!c", smt.Int)
		sel := smt.Select(nc, j)
		inWin := smt.And(smt.Le(dst.Off, j), smt.Lt(j, smt.Add(dst.Off, n)))
		st.assume(smt.Forall([]*smt.Term{j}, smt.Eq(sel, smt.Ite(inWin, srcs[li](smt.Sub(j, dst.Off)), smt.Select(oldArr, j))), sel))
		st.setHeap(name, smt.Store(h, dst.Arr, nc))
	}
	return IntV{n}
}

// ---------------------------------------------------------------------------
// Contract application at a call site.

func (e *Engine) applyContract(st *State, fc *contract.Func, f *ssa.Function, sig *types.Signature, args []Value, instr ssa.Instruction, pos token.Pos, name string) Value {
	env := e.calleeEnv(st, fc, f, sig, args)
	// ghost instantiation from "at call" annotations of the caller
	ann := e.callAnnotation(st, instr, name)
	callerEnv := e.funcEnv(st)
	// $arg0, $arg1, ...: the argument values of this call (receiver first), usable in "at call" assertions
	for i, a := range args {
		callerEnv.vars[fmt.Sprintf("$arg%d", i)] = a
	}
	for _, g := range fc.Ghosts {
		gname := strings.Fields(g)[0]
		var gv Value
		if ann != nil {
			for _, l := range ann.Ghosts {
				if l.Name == gname {
					gv = e.eval(callerEnv, l.Expr)
				}
			}
		}
		if gv == nil {
			if v, ok := callerEnv.lookupLocal(gname); ok {
				gv = v
			}
		}
		if gv == nil {
			panic(unsupported(fmt.Sprintf("call to %s: ghost %q not instantiated", fc.Key, gname)))
		}
		env.vars[gname] = gv
	}
	if ann != nil {
		for _, u := range ann.Uses {
			st.assume(e.evalBool(callerEnv, u))
		}
		for _, a := range ann.Asserts {
			e.check(st, "assert", "at call "+name+" "+clauseLabel(a), a.Props, e.evalBool(callerEnv, a.Expr), pos)
		}
	}
	for _, l := range fc.Lets {
		env.vars[l.Name] = e.eval(env, l.Expr)
	}
	for _, r := range fc.Requires {
		e.check(st, "call-pre", name+" "+clauseLabel(r), propsOr(r.Props, "SAFETY"), e.evalBool(env, r.Expr), pos)
	}
	if so, ok := fc.Opts["stream"]; ok {
		// the callee reads its buffer as a window of the ghost stream: prove it here
		parts := strings.Split(so, ",")
		bv := env.vars[strings.TrimSpace(parts[0])].(SliceV)
		seq := env.vars[strings.TrimSpace(parts[1])].(SeqV)
		base := env.vars[strings.TrimSpace(parts[2])].(IntV).T
		j := smt.Fresh("j!s", smt.Int)
		scratch := st.clone()
		elem := scratch.loadElem(bv.Elem, nil, bv.Arr, smt.Add(bv.Off, j)).(IntV).T
		goal := smt.Forall([]*smt.Term{j}, smt.Implies(smt.And(smt.Le(smt.IntC(0), j), smt.Lt(j, bv.Len)), smt.Eq(elem, smt.Select(seq.Arr, smt.Add(base, j)))))
		e.check(st, "call-pre", name+" stream", []string{"SAFETY"}, goal, pos)
	}
	pre := st.clone()
	env.old = pre
	// havoc modifies: all targets are resolved in the pre-state, then forgotten
	penv := *env
	penv.st = pre
	for _, m := range fc.Modifies {
		e.havocTargetIn(st, &penv, m)
	}
	env.st = st
	if len(fc.Modifies) > 0 || !fc.Trusted {
		na := smt.Fresh("alloc", smt.Int)
		st.assume(smt.Le(st.alloc, na))
		st.alloc = na
	}
	var res Value
	if sig.Results().Len() > 0 {
		res = e.opaqueResult(st, sig.Results(), name)
		env.setResult(res, sig)
	}
	if fc.Raises {
		if e.cur.fc == nil || !e.cur.fc.Raises {
			e.note("call to raising function " + fc.Key + " treated as returning normally (raise propagates as controlled panic)")
		}
	}
	for _, en := range fc.Ensures {
		st.assume(e.evalBool(env, en.Expr))
	}
	if ann != nil && (len(ann.Assumes) > 0 || len(ann.Sets) > 0) {
		// $r0, $r1, ..: the results of this call
		switch r := res.(type) {
		case TupleV:
			for i, x := range r {
				callerEnv.vars[fmt.Sprintf("$r%d", i)] = x
			}
		case nil:
		default:
			callerEnv.vars["$r0"] = r
		}
		for _, a := range ann.Assumes {
			st.assume(e.evalBool(callerEnv, a.Expr))
		}
		if len(ann.Sets) > 0 {
			top := st.fr
			for top.parent != nil {
				top = top.parent
			}
			vals := make([]Value, len(ann.Sets))
			for i, l := range ann.Sets {
				vals[i] = e.eval(callerEnv, l.Expr)
			}
			for i, l := range ann.Sets {
				if _, ok := top.ghost[l.Name]; !ok {
					panic(unsupported("set of undeclared ghost variable " + l.Name))
				}
				top.ghost[l.Name] = vals[i]
			}
		}
	}
	return res
}

func clauseLabel(c contract.Clause) string {
	if c.Label != "" {
		return c.Label
	}
	s := c.Src
	if len(s) > 40 {
		s = s[:40] + "~"
	}
	return s
}

func propsOr(p []string, d string) []string {
	if len(p) == 0 {
		return []string{d}
	}
	return p
}

// callOrdinal numbers the call sites of one callee name in source order.
func (c *verifyCtx) callOrdinal(instr ssa.Instruction, name string) int {
	if c.callOrd == nil {
		c.callOrd = map[ssa.Instruction]int{}
		type site struct {
			in  ssa.Instruction
			pos token.Pos
		}
		byName := map[string][]site{}
		for _, b := range c.fn.Blocks {
			for _, in := range b.Instrs {
				var cc *ssa.CallCommon
				switch x := in.(type) {
				case *ssa.Call:
					cc = x.Common()
				case *ssa.Defer:
					cc = x.Common()
				}
				if cc != nil {
					n := callName(cc)
					byName[n] = append(byName[n], site{in, in.Pos()})
				}
			}
		}
		for _, ss := range byName {
			sort.SliceStable(ss, func(i, j int) bool { return ss[i].pos < ss[j].pos })
			for i, s := range ss {
				c.callOrd[s.in] = i
			}
		}
	}
	if o, ok := c.callOrd[instr]; ok {
		return o
	}
	return -2
}

// callAnnotation finds the "at call name#k" annotation for a call instruction of the function under verification.
func (e *Engine) callAnnotation(st *State, instr ssa.Instruction, name string) *contract.Call {
	if e.cur == nil || e.cur.fc == nil || st.fr.parent != nil {
		return nil
	}
	ord := e.cur.callOrdinal(instr, name)
	for _, c := range e.cur.fc.Calls {
		if c.Callee == name && (c.Ordinal == ord || c.Ordinal == -1) {
			return c
		}
	}
	return nil
}

func isByteElem(t types.Type) bool {
	if t == nil {
		return false
	}
	b, ok := t.Underlying().(*types.Basic)
	return ok && b.Kind() == types.Uint8
}
