package symex

import (
	"verif/internal/smt"

	"bufio"
	"crypto/sha256"
	"encoding/hex"
	"os"
	"sort"
	"sync"
)

// Answer cache: the solvers' "unsat" for a query is a function of the query text alone, so a proved query (identified by the
// SHA-256 of its complete SMT-LIB script) need not be sent to the solvers again. The verification conditions themselves are
// regenerated from the working tree on every run; only byte-identical queries are answered from the cache. Nothing but
// "unsat" is ever cached.
type AnswerCache struct {
	mu    sync.Mutex
	path  string
	have  map[string]bool
	added []string
	Hits  int
}

// Cache is the process-wide answer cache (nil: disabled).
var Cache *AnswerCache

// OpenCache loads the cache file (a missing file is an empty cache).
func OpenCache(path string) *AnswerCache {
	c := &AnswerCache{path: path, have: map[string]bool{}}
	f, err := os.Open(path)
	if err != nil {
		return c
	}
	defer f.Close()
	sc := bufio.NewScanner(f)
	for sc.Scan() {
		if l := sc.Text(); len(l) == 64 {
			c.have[l] = true
		}
	}
	return c
}

// QueryKey is the structural key of a query: the hashes of its hypotheses (in order) and of its goal. It identifies the
// query as the script text does (variable names, table contents and structure are all hashed) but costs no printing.
func QueryKey(hyps []*smt.Term, goal *smt.Term) string {
	h := sha256.New()
	ph := smt.PreludeHash()
	h.Write([]byte("structural-key-v1"))
	h.Write(ph[:])
	for _, t := range hyps {
		x := t.Hash()
		h.Write(x[:])
	}
	h.Write([]byte("|goal|"))
	if goal != nil {
		x := goal.Hash()
		h.Write(x[:])
	}
	return hex.EncodeToString(h.Sum(nil))
}

// ProvedKey / AddKey: the same cache addressed by a precomputed key.
func (c *AnswerCache) ProvedKey(k string) bool {
	if c == nil {
		return false
	}
	c.mu.Lock()
	defer c.mu.Unlock()
	if c.have[k] {
		c.Hits++
		return true
	}
	return false
}

// HasKey reports membership without counting a hit.
func (c *AnswerCache) HasKey(k string) bool {
	if c == nil {
		return false
	}
	c.mu.Lock()
	defer c.mu.Unlock()
	return c.have[k]
}

// CountHit counts one query answered from the cache.
func (c *AnswerCache) CountHit() {
	if c == nil {
		return
	}
	c.mu.Lock()
	c.Hits++
	c.mu.Unlock()
}

func (c *AnswerCache) AddKey(k string) {
	if c == nil {
		return
	}
	c.mu.Lock()
	defer c.mu.Unlock()
	if !c.have[k] {
		c.have[k] = true
		c.added = append(c.added, k)
	}
}

func scriptKey(script string) string {
	h := sha256.Sum256([]byte(script))
	return hex.EncodeToString(h[:])
}

// Proved reports whether the script is known to be unsat.
func (c *AnswerCache) Proved(script string) bool {
	if c == nil {
		return false
	}
	k := scriptKey(script)
	c.mu.Lock()
	defer c.mu.Unlock()
	if c.have[k] {
		c.Hits++
		return true
	}
	return false
}

// Add records an unsat answer.
func (c *AnswerCache) Add(script string) {
	if c == nil {
		return
	}
	k := scriptKey(script)
	c.mu.Lock()
	defer c.mu.Unlock()
	if !c.have[k] {
		c.have[k] = true
		c.added = append(c.added, k)
	}
}

// Save rewrites the cache file when entries were added.
func (c *AnswerCache) Save() error {
	if c == nil || len(c.added) == 0 {
		return nil
	}
	c.mu.Lock()
	defer c.mu.Unlock()
	// merge what another run may have saved in the meantime
	if f, err := os.Open(c.path); err == nil {
		sc := bufio.NewScanner(f)
		for sc.Scan() {
			if l := sc.Text(); len(l) == 64 {
				c.have[l] = true
			}
		}
		f.Close()
	}
	keys := make([]string, 0, len(c.have))
	for k := range c.have {
		keys = append(keys, k)
	}
	sort.Strings(keys)
	tmp := c.path + ".tmp"
	f, err := os.Create(tmp)
	if err != nil {
		return err
	}
	w := bufio.NewWriter(f)
	for _, k := range keys {
		w.WriteString(k)
		w.WriteByte('\n')
	}
	if err := w.Flush(); err != nil {
		f.Close()
		return err
	}
	f.Close()
	c.added = nil
	return os.Rename(tmp, c.path)
}
