package symex

import (
	"sort"
	"fmt"
	"go/ast"
	"go/printer"
	"go/token"
	"strconv"
	"strings"

	"golang.org/x/tools/go/ssa"

	"verif/internal/contract"
	"verif/internal/smt"
)

type regionInfo struct {
	r      *contract.Region
	blocks map[*ssa.BasicBlock]bool
	entry  *ssa.BasicBlock
	lo, hi token.Pos
}

func normText(s string) string { return strings.Join(strings.Fields(s), "") }

// findClause locates the case clause addressed by path inside body.
func (e *Engine) findClause(root ast.Node, path []string) *ast.CaseClause {
	cur := root
	var found *ast.CaseClause
	for _, lbl := range path {
		want := lbl
		occ := 0
		if i := strings.LastIndex(lbl, "#"); i >= 0 {
			if k, err := strconv.Atoi(lbl[i+1:]); err == nil {
				want, occ = lbl[:i], k
			}
		}
		want = normText(strings.TrimPrefix(strings.TrimSpace(want), "case "))
		found = nil
		n := 0
		ast.Inspect(cur, func(nd ast.Node) bool {
			if found != nil {
				return false
			}
			cc, ok := nd.(*ast.CaseClause)
			if !ok {
				return true
			}
			var parts []string
			for _, x := range cc.List {
				var sb strings.Builder
				_ = printer.Fprint(&sb, e.Fset, x)
				parts = append(parts, normText(sb.String()))
			}
			txt := strings.Join(parts, ",")
			if cc.List == nil {
				txt = "default"
			}
			if txt == want {
				if n == occ {
					found = cc
					return false
				}
				n++
				return false // do not count nested clauses of a non-selected match
			}
			return true
		})
		if found == nil {
			return nil
		}
		cur = found
	}
	return found
}

// regionBlocks computes the SSA blocks of a clause.
func regionBlocks(fn *ssa.Function, lo, hi token.Pos) (map[*ssa.BasicBlock]bool, *ssa.BasicBlock) {
	in := map[*ssa.BasicBlock]bool{}
	posIn := func(b *ssa.BasicBlock) (bool, bool) {
		hasIn, hasOut := false, false
		for _, instr := range b.Instrs {
			p := instr.Pos()
			switch instr.(type) {
			case *ssa.Alloc, *ssa.DebugRef, *ssa.Store:
				continue // declarations carry the position of the identifier, which may sit in a switch header
			}
			if !p.IsValid() {
				continue
			}
			if lo <= p && p < hi {
				hasIn = true
			} else {
				hasOut = true
			}
		}
		return hasIn, hasOut
	}
	for _, b := range fn.Blocks {
		hi1, ho := posIn(b)
		if hi1 && !ho {
			in[b] = true
		}
	}
	// blocks without positions join the region when all predecessors are inside
	for changed := true; changed; {
		changed = false
		for _, b := range fn.Blocks {
			if in[b] || len(b.Preds) == 0 {
				continue
			}
			hi1, ho := posIn(b)
			if hi1 || ho {
				continue
			}
			all := true
			for _, p := range b.Preds {
				if !in[p] {
					all = false
				}
			}
			if all {
				in[b] = true
				changed = true
			}
		}
	}
	var entry *ssa.BasicBlock
	for _, b := range fn.Blocks {
		if !in[b] {
			continue
		}
		for _, p := range b.Preds {
			if !in[p] {
				if entry == nil || b.Index < entry.Index {
					entry = b
				}
			}
		}
	}
	return in, entry
}

// verifyRegions checks every region contract of a function.
func (e *Engine) verifyRegions(fn *ssa.Function, fc *contract.Func, rep *FuncReport) map[string]*regionInfo {
	ctx := e.cur
	fd, ok := fn.Syntax().(*ast.FuncDecl)
	if !ok {
		panic(unsupported("region contract on a function without syntax"))
	}
	infos := map[string]*regionInfo{}
	for _, r := range fc.Regions {
		cc := e.findClause(fd.Body, r.Path)
		if cc == nil {
			e.Obligs = append(e.Obligs, &Oblig{Name: funcDisplay(fn) + "/region " + r.Name + "/unbound", Kind: "subset", Props: regionProps(r), Func: funcDisplay(fn),
				Goal: smt.False, Note: "region contract cannot be bound: no case clause " + strings.Join(r.Path, " > ")})
			continue
		}
		ri := &regionInfo{r: r, lo: cc.Colon + 1, hi: cc.End()}
		ri.blocks, ri.entry = regionBlocks(fn, ri.lo, ri.hi)
		if ri.entry == nil {
			e.Obligs = append(e.Obligs, &Oblig{Name: funcDisplay(fn) + "/region " + r.Name + "/unbound", Kind: "subset", Props: regionProps(r), Func: funcDisplay(fn),
				Goal: smt.False, Note: "region has no entry block"})
			continue
		}
		infos[r.Name] = ri
	}
	for _, r := range fc.Regions {
		ri := infos[r.Name]
		if ri == nil {
			continue
		}
		children := map[*ssa.BasicBlock]*regionInfo{}
		for _, c := range fc.Regions {
			if c.Parent == r.Name && infos[c.Name] != nil {
				children[infos[c.Name].entry] = infos[c.Name]
			}
		}
		e.verifyRegion(fn, fc, ri, children, rep)
	}
	_ = ctx
	return infos
}

func regionProps(r *contract.Region) []string {
	set := map[string]bool{}
	for _, c := range r.Asserts {
		for _, p := range c.Props {
			set[p] = true
		}
	}
	var out []string
	for p := range set {
		out = append(out, p)
	}
	out = append(out, "SAFETY")
	return out
}

func (e *Engine) verifyRegion(fn *ssa.Function, fc *contract.Func, ri *regionInfo, children map[*ssa.BasicBlock]*regionInfo, rep *FuncReport) {
	ctx := e.cur
	defer func() {
		if r := recover(); r != nil {
			u, ok := r.(Unsupported)
			msg := fmt.Sprint(r)
			if ok {
				msg = u.Error()
			}
			e.Obligs = append(e.Obligs, &Oblig{Name: funcDisplay(fn) + "/region " + ri.r.Name + "/outside-subset", Kind: "subset", Props: regionProps(ri.r), Func: funcDisplay(fn), Goal: smt.False, Note: msg})
		}
	}()
	st := &State{cellVals: map[*Cell]Value{}, heaps: map[string]*smt.Term{}, facts: map[*smt.Term]bool{}, globals: map[*ssa.Global]Value{}, nonnil: map[*smt.Term]bool{}}
	st.alloc = smt.Var("alloc@0", smt.Int)
	st.assume(smt.Lt(smt.IntC(0), st.alloc))
	st.fr = newFrame(fn)
	// values defined outside the region and used inside: arbitrary well-typed values
	defIn := func(v ssa.Value) bool {
		if in, ok := v.(ssa.Instruction); ok {
			return ri.blocks[in.Block()]
		}
		return false
	}
	seen := map[ssa.Value]bool{}
	for b := range ri.blocks {
		for _, instr := range b.Instrs {
			for _, op := range instr.Operands(nil) {
				v := *op
				if v == nil || seen[v] || defIn(v) {
					continue
				}
				seen[v] = true
				switch x := v.(type) {
				case *ssa.Const, *ssa.Global, *ssa.Function, *ssa.Builtin:
					continue
				case *ssa.Alloc:
					et := derefType(x.Type())
					c := newCell(x.Comment, et)
					st.fr.cells[x] = c
					st.fr.cellOrder = append(st.fr.cellOrder, x)
					fv, facts := freshValue(x.Comment+"@r", et)
					st.cellVals[c] = fv
					st.assumeFacts(facts)
					st.assumeFacts(allocFacts(fv, st.alloc))
					recordRangeDeep(et, fv)
					st.fr.regs[x] = PtrV{Cell: c, Elem: et}
				default:
					fv, facts := freshValue(v.Name()+"@r", v.Type())
					st.fr.regs[v] = fv
					st.assumeFacts(facts)
					st.assumeFacts(allocFacts(fv, st.alloc))
					recordRangeDeep(v.Type(), fv)
				}
			}
		}
	}
	// every local of the function is visible by name in the contract (cells not used in the region too)
	for _, b := range fn.Blocks {
		for _, instr := range b.Instrs {
			if a, ok := instr.(*ssa.Alloc); ok && !ri.blocks[b] && st.fr.cells[a] == nil && a.Comment != "" {
				et := derefType(a.Type())
				func() {
					defer func() { _ = recover() }()
					c := newCell(a.Comment, et)
					fv, facts := freshValue(a.Comment+"@r", et)
					st.fr.cells[a] = c
					st.fr.cellOrder = append([]*ssa.Alloc{a}, st.fr.cellOrder...)
					st.cellVals[c] = fv
					st.assumeFacts(facts)
				}()
			}
		}
	}
	// bind the clause's implicit variable (typeswitch binding) before the entry values are named
	ctx.region = ri
	startIdx := 0
	for startIdx < len(ri.entry.Instrs) {
		switch ri.entry.Instrs[startIdx].(type) {
		case *ssa.Alloc, *ssa.Store, *ssa.DebugRef:
			e.execSimple(st, ri.entry.Instrs[startIdx])
			startIdx++
			continue
		}
		break
	}
	env := e.funcEnv(st)
	for _, l := range ri.r.Lets {
		v := e.eval(env, l.Expr)
		st.fr.lets[l.Name] = v
		env.vars[l.Name] = v
	}
	for _, a := range ri.r.Assumes {
		st.assume(e.evalBool(env, a.Expr))
	}
	for _, u := range ri.r.Uses {
		st.assume(e.evalBool(env, u))
	}
	preOnly := len(ri.r.Asserts) == 0
	obligStart := len(e.Obligs)
	if preOnly {
		// a region without assertions exists only to check the entry assumptions of its child regions
		defer func() {
			kept := e.Obligs[:obligStart]
			for _, o := range e.Obligs[obligStart:] {
				if o.Kind == "region-pre" {
					kept = append(kept, o)
				}
			}
			e.Obligs = kept
		}()
	}
	st.entry = st.clone()
	st.label("region " + ri.r.Name)
	// loop contracts of the region: numbered in source order among the loops whose header lies inside
	var hs []*loopInfo
	for h, li := range ctx.loops {
		if ri.blocks[h] {
			hs = append(hs, li)
		}
	}
	sort.Slice(hs, func(i, j int) bool { return hs[i].ordinal < hs[j].ordinal })
	for k, li := range hs {
		li.lc = ri.r.Loops[k]
		li.regionOrd = k
	}
	ctx.region = ri
	ctx.children = children
	defer func() { ctx.region, ctx.children = nil, nil }()
	outs := e.execInstrs(st, ri.entry, startIdx)
	reached := map[*regionInfo]bool{}
	defer func() {
		for _, c := range children {
			if !reached[c] && len(c.r.Assumes) > 0 {
				e.Obligs = append(e.Obligs, &Oblig{Name: funcDisplay(fn) + "/region " + ri.r.Name + "/enter " + c.r.Name + "/unreached", Kind: "region-pre", Props: regionProps(c.r), Func: funcDisplay(fn),
					Goal: smt.False, Note: "no path of the parent region reaches the entry of this region: its assumptions are unchecked"})
			}
		}
	}()
	for _, o := range outs {
		if o.child != nil {
			reached[o.child] = true
		}
		ctx.exits++
		if o.panics {
			continue
		}
		penv := e.funcEnv(o.st)
		if o.child != nil {
			o.st.label("enter " + o.child.r.Name)
			for _, a := range o.child.r.Assumes {
				e.addOblig(o.st, "region-pre", o.child.r.Name+" "+clauseLabel(a), propsOr(a.Props, "SAFETY"), e.evalBool(penv, a.Expr), fn.Pos())
			}
			continue
		}
		o.st.label("exit")
		for _, a := range ri.r.Asserts {
			e.addOblig(o.st, "region-assert", clauseLabel(a), propsOr(a.Props, "SAFETY"), e.evalBool(penv, a.Expr), fn.Pos())
		}
	}
}
