#!/bin/bash
# usage: run_all.sh [quick|thorough]  — runs every registered property check once and prints one summary line each
tier=${1:-quick}
export GOFLAGS=-mod=mod GOPROXY=off GOSUMDB=off GOTOOLCHAIN=local
cd /verif
for p in $(python3 -c "import json; print(' '.join(c['property_id'] for c in json.load(open('MANIFEST.json'))['checks']))"); do
  s=$(date +%s)
  out=$(bin/vcheck -prop $p -tier $tier 2>&1); rc=$?
  e=$(date +%s)
  echo "$p exit=$rc secs=$((e-s)) $(echo "$out" | grep '^property=' | tail -1)"
  echo "$out" | grep "^VIOLATION\|^KNOWN-FINDING" | cut -c1-260
done
