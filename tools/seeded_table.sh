#!/bin/bash
# Runs every seeded change against the checks that could plausibly notice it (scratch worktree, never /repo) and
# writes /verif/seeded/RESULTS.md. usage: seeded_table.sh [id ...]
cd ${VERIF_ROOT:-/verif}
declare -A props=(
 [C01-a]="C01 C03" [C01-b]="C01" [C02-a]="C02" [C02-b]="C02" [C03-a]="C03" [C03-b]="C03 C02"
 [C04-a]="C04 C07" [C05-a]="C05 C11" [C06-a]="C06" [C06-b]="C06" [C07-a]="C07" [C09-a]="C09" [C09-b]="C09"
 [C10-a]="C10 C07" [C11-a]="C11 C05" [C12-a]="C12" [C20-a]="C20" )
ids="$@"; [ -z "$ids" ] && ids=$(ls seeded | grep -E '^C[0-9]+-[a-z]$')
out=seeded/RESULTS.raw
for id in $ids; do
  ps=${props[$id]:-${id%-*}}
  tools/run_seeded.sh seeded/$id $ps 2>&1 | tee -a $out.tmp
done
mv $out.tmp $out 2>/dev/null
python3 tools/seeded_results.py
