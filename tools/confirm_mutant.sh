#!/bin/bash
# usage: confirm_mutant.sh <id> <dir with patch.diff demo_test.go README.md>
# Confirms in a scratch worktree that the patch compiles, passes the existing suite, and that the demo fails with it and passes without it.
set -u
id=$1; src=$2
export GOFLAGS=-mod=mod GOPROXY=off GOSUMDB=off GOTOOLCHAIN=local
wt=/tmp/confirm-$id
git -C /repo worktree remove --force $wt 2>/dev/null
git -C /repo worktree add -q --detach $wt HEAD || exit 2
cd $wt
res() { echo "$id: $1"; }
if ! git apply --whitespace=nowarn $src/patch.diff; then res "patch does not apply"; git -C /repo worktree remove --force $wt; exit 1; fi
if ! go build ./... 2>/tmp/confirm-$id.build; then res "build fails"; cat /tmp/confirm-$id.build | head; git -C /repo worktree remove --force $wt; exit 1; fi
suite=$(go test -vet=off -count=1 ./... 2>&1 | grep -v "^ok\|no test files" | head -5)
if [ -n "$suite" ]; then res "existing suite FAILS with patch: $suite"; fi
mkdir -p zzdemo && cp $src/demo_test.go zzdemo/
with=$(go test -vet=off -count=1 ./zzdemo/ 2>&1 | tail -1)
git stash -q -- . ':!zzdemo' 2>/dev/null || git checkout -q -- $(git diff --name-only)
without=$(go test -vet=off -count=1 ./zzdemo/ 2>&1 | tail -1)
res "suite_with_patch=$([ -z "$suite" ] && echo pass || echo FAIL) demo_with_patch=[$with] demo_without=[$without]"
cd /; git -C /repo worktree remove --force $wt
