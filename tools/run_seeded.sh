#!/bin/bash
# usage: run_seeded.sh <seeded dir> <prop> [<prop>...]
# Applies the seeded change to /repo, runs the quick checks of the given properties, and restores /repo.
set -u
d=$1; shift
export GOFLAGS=-mod=mod GOPROXY=off GOSUMDB=off GOTOOLCHAIN=local
cd /repo && git diff --quiet || { echo "/repo has uncommitted changes"; exit 2; }
git -C /repo apply --whitespace=nowarn /verif/$d/patch.diff || { echo "patch does not apply"; exit 2; }
for p in "$@"; do
  out=$(cd /verif && bin/vcheck -prop $p -tier quick 2>&1)
  rc=$?
  nv=$(echo "$out" | grep -c "^VIOLATION")
  echo "$d $p exit=$rc violations=$nv"
  echo "$out" | grep "^VIOLATION" | head -3 | cut -c1-300
done
git -C /repo checkout -- .
# evidence files were rewritten by the mutant run: restore the committed ones
git -C /verif checkout -- evidence 2>/dev/null
