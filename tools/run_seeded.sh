#!/bin/bash
# usage: run_seeded.sh <seeded dir> <prop> [<prop>...]
# Applies the seeded change to a scratch worktree of /repo (never to /repo itself), runs the quick checks of the given
# properties against that worktree, and removes the worktree.
set -u
d=$1; shift
export GOFLAGS=-mod=mod GOPROXY=off GOSUMDB=off GOTOOLCHAIN=local
VR=${VERIF_ROOT:-/verif}
wt=/root/scratch/seedwt-$(basename $d)
git -C /repo worktree remove --force $wt 2>/dev/null
git -C /repo worktree add -q --detach $wt HEAD || exit 2
if ! git -C $wt apply --whitespace=nowarn $VR/$d/patch.diff; then echo "$d: patch does not apply to HEAD"; git -C /repo worktree remove --force $wt; exit 2; fi
for p in "$@"; do
  out=$(cd $VR && VERIF_ROOT=$VR bin/vcheck -repo $wt -nosave -prop $p -tier ${TIER:-quick} 2>&1)
  rc=$?
  nv=$(echo "$out" | grep -c "^VIOLATION")
  echo "$d $p exit=$rc violations=$nv $(echo "$out" | grep '^property=' | tail -1)"
  echo "$out" | grep "^VIOLATION\|REPLAY-FAIL" | head -6 | cut -c1-330
done
git -C /repo worktree remove --force $wt
