#!/usr/bin/env python3
"""Regenerates the gen.Parser part of /repo/gen/zz_verif_contracts.go from the oj.Parser contract.

gen/parser.go is a hand copy of oj/parser.go over gen.Node values; its contract is the oj.Parser contract with the
predicates restated in package gen (predicates evaluate names in their defining package, and gen has its own mode
tables). usage: gen_port.py [repo root]   (default /repo)
"""
import re, sys
root = sys.argv[1] if len(sys.argv) > 1 else '/repo'
src = open(root + '/oj/zz_verif_contracts.go').read()
lines = src.split('\n')

def block(start_pat, stop_pats):
    out = []; on = False
    for l in lines:
        if not on and re.match(start_pat, l):
            on = True; out.append(l); continue
        if on:
            if any(re.match(sp, l) for sp in stop_pats):
                break
            out.append(l)
    return '\n'.join(out).rstrip() + '\n'

stops = [r'^//@ (pred|func|lemma|unit) ', r'^// -----']
parts = []
for f in ('newError', 'byteError'):
    parts.append(block(r'^//@ func \(\*tracker\)\.%s' % f, stops).replace('(*tracker).' + f, '(*Parser).' + f).replace('t.noff', 'p.noff').replace('t.line', 'p.line'))
for name in ['EqButOffSL', 'EqButOff', 'EqButOffPh', 'TopIs', 'VNext', 'VMode', 'VErr', 'EqState']:
    parts.append(block(r'^//@ pred %s\(' % name, stops))
parts.append(block(r'^//@ lemma ErrAbsorbing', stops))
for name in ['IsKey', 'IsMap', 'KeyPushed', 'PLevels', 'PTop', 'POwn', 'PMaps', 'PStr', 'PRel']:
    parts.append(block(r'^//@ pred %s\(' % name, stops))
for f in ['add', 'parseBuffer', 'Parse', 'ParseReader']:
    parts.append(block(r'^//@ func \(\*Parser\)\.%s$' % f, stops))
t = '\n'.join(parts)
t = t.replace('gen.NumInv', 'NumInv').replace('gen.Key', 'Key')
t = t.replace('//@ pred IsMap(x) = ismap(x) && anyref(x) != 0', '//@ pred IsMap(x) = typeis(x, Object) && anyref(x) != 0')
p = root + '/gen/zz_verif_contracts.go'
dst = open(p).read()
a = dst.index('//@ func (*Parser).newError')
open(p, 'w').write(dst[:a] + t)
print('gen contract regenerated:', len(t.split('\n')), 'lines')
