#!/usr/bin/env python3
# Turns seeded/RESULTS.raw (output of run_seeded.sh) into seeded/RESULTS.md and refreshes the caught_by field of every meta.json.
import json, os, re, collections
root = os.environ.get('VERIF_ROOT','/verif') + '/seeded'
raw = open(os.path.join(root, 'RESULTS.raw')).read().splitlines() if os.path.exists(os.path.join(root, 'RESULTS.raw')) else []
res = collections.OrderedDict()
cur = None
for l in raw:
    m = re.match(r'seeded/(\S+) (C\d+) exit=(\d+) violations=(\d+)', l)
    if m:
        cur = (m.group(1), m.group(2))
        res[cur] = {'exit': int(m.group(3)), 'violations': int(m.group(4)), 'obligations': []}
        continue
    m = re.match(r'VIOLATION property=\S+ replay=\S+ obligation="([^"]*)"', l)
    if m and cur:
        res[cur]['obligations'].append(m.group(1))
    if 'patch does not apply' in l:
        mid = re.match(r'seeded/(\S+):', l)
        if mid:
            res[(mid.group(1), '-')] = {'exit': 2, 'violations': 0, 'obligations': ['patch does not apply to HEAD']}
rows = []
byid = collections.defaultdict(list)
for (mid, prop), r in res.items():
    byid[mid].append((prop, r))
lines = ['# Seeded changes: last run of tools/seeded_table.sh', '',
         '| id | checks run | caught by | first failing obligation |', '|---|---|---|---|']
for mid in sorted(byid):
    caught = [p for p, r in byid[mid] if r['exit'] == 1 and r['violations'] > 0]
    first = ''
    for p, r in byid[mid]:
        if r['obligations']:
            first = r['obligations'][0]
            break
    lines.append('| %s | %s | %s | %s |' % (mid, ' '.join(p for p, _ in byid[mid]), ' '.join(caught) if caught else 'missed', first.replace('|', '\\|')[:160]))
    mp = os.path.join(root, mid, 'meta.json')
    if os.path.exists(mp):
        meta = json.load(open(mp))
        meta['checks_run'] = [p for p, _ in byid[mid]]
        meta['caught_by'] = caught
        meta['first_failing_obligation'] = first
        json.dump(meta, open(mp, 'w'), indent=1)
open(os.path.join(root, 'RESULTS.md'), 'w').write('\n'.join(lines) + '\n')
print('\n'.join(lines))
