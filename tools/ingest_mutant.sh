#!/bin/bash
# usage: ingest_mutant.sh <id> <property> <worktree> "<site>" "<change>" "<needs to manifest>"
# Copies a sub-agent's deliverables (MUTANT/patch.diff, demo_test.go, README.md) to /verif/seeded/<id>, confirms the change in a
# fresh scratch worktree (tools/confirm_mutant.sh) and writes meta.json. The sub-agent's worktree is removed afterwards.
set -u
id=$1; prop=$2; wt=$3; site=$4; change=$5; needs=$6
d=/verif/seeded/$id
mkdir -p $d
cp $wt/MUTANT/patch.diff $wt/MUTANT/demo_test.go $wt/MUTANT/README.md $d/ || exit 1
res=$(/verif/tools/confirm_mutant.sh $id $d 2>&1 | tail -1)
echo "$res"
case "$res" in
  *"suite_with_patch=pass demo_with_patch=[FAIL"*"demo_without=[ok"*) ok=1;;
  *) ok=0;;
esac
if [ $ok = 0 ]; then echo "$id: NOT CONFIRMED, removing $d"; rm -rf $d; exit 1; fi
python3 - "$id" "$prop" "$site" "$change" "$needs" "$res" <<'PY'
import json,sys
id,prop,site,change,needs,res=sys.argv[1:7]
json.dump({"id":id,"property":prop,"site":site,"change":change,"needs_to_manifest":needs,
 "produced_by":"fresh sub-agent given only the property text and its own scratch worktree",
 "confirmed_by":"tools/confirm_mutant.sh %s /verif/seeded/%s: %s"%(id,id,res),
 "checked_with":"tools/run_seeded.sh seeded/%s <props> (patch applied to a scratch worktree, bin/vcheck -repo <worktree> -prop <P> -tier quick)"%id,
 "checks_run":[],"caught_by":[],"first_failing_obligation":""}, open('/verif/seeded/%s/meta.json'%id,'w'), indent=1)
PY
git -C /repo worktree remove --force $wt
