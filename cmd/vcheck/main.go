// Command vcheck is the contract-based deductive verifier for ohler55/ojg
// built for this task: it loads /repo's current working tree, generates
// verification conditions for the functions under contract and discharges them
// with z3 / cvc5. See /verif/DESIGN.md.
package main

import (
	"crypto/sha256"
	"encoding/json"
	"flag"
	"fmt"
	"os"
	"os/exec"
	"path/filepath"
	"runtime/debug"
	"runtime/pprof"
	"sort"
	"strconv"
	"strings"
	"time"

	"golang.org/x/tools/go/packages"
	"golang.org/x/tools/go/ssa"
	"golang.org/x/tools/go/ssa/ssautil"

	"verif/internal/contract"
	"verif/internal/solve"
	"verif/internal/symex"
)

var (
	flagFunc    = flag.String("func", "", "only functions whose key contains this")
	flagUnit    = flag.String("unit", "", "only this unit")
	flagDump    = flag.String("dump", "", "directory to dump SMT scripts of failed obligations")
	flagTimeout = flag.Int("timeout", 0, "solver timeout (s); default 20 quick / 60 thorough")
	flagV       = flag.Bool("v", false, "verbose")
	flagPkgs    = flag.String("pkgs", "oj,gen,sen,jp,alt,asm,pretty,.", "ojg packages to load")
	flagJobs    = flag.Int("j", 16, "parallel solver jobs")
	flagCache   = flag.String("cache", "/verif/cache/unsat.txt", "answer cache: SHA-256 of proved (unsat) query scripts; empty disables")
	flagNoSave  = flag.Bool("nosave", false, "do not add new answers to the cache file")
	flagList    = flag.Bool("list", false, "list obligations only")
	flagDiag    = flag.Bool("diag", false, "diagnose failures (failing conjuncts, candidate models)")
	flagProf    = flag.String("cpuprofile", "", "write cpu profile")
	flagOnly    = flag.String("only", "", "discharge only obligations whose name contains this")
	flagMutate  = flag.String("mutate", "", "in-memory mutation 'relpath@@old@@new' (first occurrence; testing the engine)")
	flagProp    = flag.String("prop", "", "property id: run as a registered check (evidence, VIOLATION lines, exit code)")
	flagTier    = flag.String("tier", "", "quick or thorough (default: $VERIF_TIER or quick)")
	flagReplay  = flag.String("replay", "", "re-run the obligation recorded in a replay file")
	flagLemmas  = flag.Bool("lemmas", false, "also check lemmas when -func is given")
	flagRepo    = flag.String("repo", "/repo", "repository root")
)

const ojg = "github.com/ohler55/ojg"

// verifRoot is /verif, or $VERIF_ROOT for a scratch copy of the framework (spec, axioms, module file) under development.
func verifRoot() string {
	if r := os.Getenv("VERIF_ROOT"); r != "" {
		return r
	}
	return "/verif"
}

func main() {
	debug.SetGCPercent(800)
	flag.Parse()
	if *flagProf != "" {
		f, _ := os.Create(*flagProf)
		pprof.StartCPUProfile(f)
		defer pprof.StopCPUProfile()
	}
	tier := *flagTier
	if tier == "" {
		tier = os.Getenv("VERIF_TIER")
	}
	if tier != "thorough" {
		tier = "quick"
	}
	if *flagTimeout == 0 {
		if tier == "thorough" {
			*flagTimeout = 60
		} else {
			*flagTimeout = 20
		}
	}
	if *flagReplay != "" {
		os.Exit(replay(*flagReplay))
	}
	t0 := time.Now()
	eng, err := load()
	if err != nil {
		fmt.Println(err)
		if *flagProp != "" {
			// the tree does not load: nothing can be proved about it
			fmt.Printf("VIOLATION property=%s replay=%s no-failing-input-found\n", *flagProp, writeReplay(*flagProp, symex.Result{O: &symex.Oblig{Name: "load", Kind: "load"}, Status: "error", Output: err.Error()}))
			os.Exit(1)
		}
		os.Exit(2)
	}
	if *flagCache != "" {
		symex.Cache = symex.OpenCache(*flagCache)
	}
	if *flagProp != "" {
		rc := runProperty(eng, *flagProp, tier, t0)
		if !*flagNoSave {
			symex.Cache.Save()
		}
		os.Exit(rc)
	}
	fmt.Printf("loaded in %.1fs\n", time.Since(t0).Seconds())
	reps := eng.VerifyAll(func(fc *contract.Func) bool {
		if *flagUnit != "" && fc.Unit != *flagUnit {
			return false
		}
		if *flagFunc != "" && !strings.Contains(fc.Key, *flagFunc) {
			return false
		}
		return true
	})
	for _, r := range reps {
		fmt.Printf("func %-40s blocks=%d loops=%d paths=%d exits=%d obligations=%d %s\n", r.Func, r.Blocks, r.Loops, r.Paths, r.Exits, r.Obligs, r.Unsupp)
	}
	if *flagFunc == "" || *flagLemmas {
		eng.VerifyLemmas()
	}
	fmt.Printf("generated %d obligations in %.1fs\n", len(eng.Obligs), time.Since(t0).Seconds())
	if *flagList {
		n := 0
		for _, o := range eng.Obligs {
			if *flagOnly != "" && !strings.Contains(o.Name, *flagOnly) {
				continue
			}
			fmt.Println(o.Name, o.Props)
			if *flagDump != "" && n < 50 {
				os.MkdirAll(*flagDump, 0o755)
				os.WriteFile(filepath.Join(*flagDump, fmt.Sprintf("o%04d.smt2", n)), []byte(symex.GroupScript([]*symex.Oblig{o}, true)), 0o644)
				n++
			}
		}
		return
	}
	if *flagOnly != "" {
		var keep []*symex.Oblig
		for _, o := range eng.Obligs {
			if strings.Contains(o.Name, *flagOnly) {
				keep = append(keep, o)
			}
		}
		eng.Obligs = keep
	}
	results := symex.Discharge(eng.Obligs, symex.DischargeOpts{Timeout: time.Duration(*flagTimeout) * time.Second, Jobs: *flagJobs, Diagnose: *flagDiag})
	if !*flagNoSave {
		if err := symex.Cache.Save(); err != nil {
			fmt.Println("cache:", err)
		}
	}
	if symex.Cache != nil {
		fmt.Printf("answer cache: %d queries answered from %s\n", symex.Cache.Hits, *flagCache)
	}
	nfail := 0
	byStatus := map[string]int{}
	var slow []symex.Result
	for i, r := range results {
		byStatus[r.Status]++
		if r.Status != "unsat" {
			nfail++
			fmt.Printf("FAIL [%s] %s  (%s) %s\n", r.Status, r.O.Name, r.O.Pos, r.O.Note)
			if r.Diag != "" {
				fmt.Print(r.Diag)
			}
			if *flagDump != "" {
				os.MkdirAll(*flagDump, 0o755)
				fn := filepath.Join(*flagDump, fmt.Sprintf("fail%04d.smt2", i))
				os.WriteFile(fn, []byte("; "+r.O.Name+"\n"+r.Script), 0o644)
				os.WriteFile(fn+".out", []byte(r.Output), 0o644)
			}
		}
		if r.Secs > 2 {
			slow = append(slow, r)
		}
		if *flagV && r.Status == "unsat" {
			fmt.Printf("ok   [%s %.2fs] %s\n", r.By, r.Secs, r.O.Name)
		}
	}
	sort.Slice(slow, func(i, j int) bool { return slow[i].Secs > slow[j].Secs })
	for i, r := range slow {
		if i >= 10 {
			break
		}
		fmt.Printf("slow %.1fs %s\n", r.Secs, r.O.Name)
	}
	fmt.Printf("obligations=%d %v failed=%d wall=%.1fs\n", len(results), byStatus, nfail, time.Since(t0).Seconds())
	for _, n := range eng.Notes {
		fmt.Println("note:", n)
	}
	if nfail > 0 {
		os.Exit(1)
	}
}

// load builds the SSA program from the repository's current working tree and binds the contracts.
func load() (*symex.Engine, error) {
	var pats []string
	for _, p := range strings.Split(*flagPkgs, ",") {
		if p == "." {
			pats = append(pats, ojg)
		} else {
			pats = append(pats, ojg+"/"+p)
		}
	}
	pats = append(pats, "verif/spec")
	cfg := &packages.Config{Mode: packages.LoadAllSyntax, Dir: verifRoot(), BuildFlags: []string{"-tags=verif"},
		Env: append(os.Environ(), "GOFLAGS=-mod=mod", "GOPROXY=off", "GOSUMDB=off", "GOTOOLCHAIN=local")}
	if *flagRepo != "/repo" {
		// a scratch copy of the repository (testing seeded changes without touching /repo): alternate module file
		mod, err := os.ReadFile(verifRoot() + "/go.mod")
		if err != nil {
			return nil, err
		}
		dir, err := os.MkdirTemp("", "vcheck-mod")
		if err != nil {
			return nil, err
		}
		alt := filepath.Join(dir, "alt.mod")
		os.WriteFile(alt, []byte(strings.Replace(string(mod), "=> /repo", "=> "+*flagRepo, 1)), 0o644)
		if sum, err := os.ReadFile(verifRoot() + "/go.sum"); err == nil {
			os.WriteFile(filepath.Join(dir, "alt.sum"), sum, 0o644)
		}
		cfg.BuildFlags = append(cfg.BuildFlags, "-modfile="+alt)
		defer os.RemoveAll(dir)
	}
	if *flagMutate != "" {
		parts := strings.SplitN(*flagMutate, "@@", 3)
		if len(parts) != 3 {
			return nil, fmt.Errorf("bad -mutate")
		}
		path := filepath.Join(*flagRepo, parts[0])
		data, err := os.ReadFile(path)
		if err != nil || !strings.Contains(string(data), parts[1]) {
			return nil, fmt.Errorf("mutate: pattern not found in %s", path)
		}
		cfg.Overlay = map[string][]byte{path: []byte(strings.Replace(string(data), parts[1], parts[2], 1))}
	}
	pkgs, err := packages.Load(cfg, pats...)
	if err != nil {
		return nil, fmt.Errorf("load: %v", err)
	}
	if packages.PrintErrors(pkgs) > 0 {
		return nil, fmt.Errorf("load: the repository does not type-check")
	}
	prog, _ := ssautil.AllPackages(pkgs, ssa.NaiveForm|ssa.GlobalDebug)
	prog.Build()
	eng := symex.NewEngine(prog, pkgs)
	var all []*packages.Package
	packages.Visit(pkgs, nil, func(p *packages.Package) { all = append(all, p) })
	sort.Slice(all, func(i, j int) bool { return all[i].PkgPath < all[j].PkgPath })
	for _, p := range all {
		if !strings.HasPrefix(p.PkgPath, ojg) || len(p.GoFiles) == 0 {
			continue
		}
		dir := filepath.Dir(p.GoFiles[0])
		path := filepath.Join(dir, "zz_verif_contracts.go")
		if _, err := os.Stat(path); err == nil {
			f, err := contract.ParseFile(path, p.PkgPath)
			if err != nil {
				return nil, fmt.Errorf("contract: %v", err)
			}
			if err := eng.AddContracts(f); err != nil {
				return nil, fmt.Errorf("contract: %v", err)
			}
		}
	}
	ax, _ := filepath.Glob(verifRoot() + "/axioms/*.contracts")
	for _, a := range ax {
		f, err := contract.ParseFile(a, "")
		if err != nil {
			return nil, fmt.Errorf("axioms: %v", err)
		}
		if err := eng.AddContracts(f); err != nil {
			return nil, fmt.Errorf("axioms: %v", err)
		}
	}
	return eng, nil
}

// ---------------------------------------------------------------------------
// Registered property checks.

// Finding is one entry of /verif/known_findings.json.
type Finding struct {
	Property   string `json:"property"`
	Obligation string `json:"obligation"` // exact obligation name or prefix ending in '*'
	Status     string `json:"status"`     // "open" or "fixed"
	Commit     string `json:"commit,omitempty"`
	What       string `json:"what"`
	Witness    string `json:"witness,omitempty"`
	Always     bool   `json:"always,omitempty"` // a defect the contracts exclude by a stated assumption: reported on every run, matches no obligation
}

type findingsFile struct {
	Findings []Finding `json:"findings"`
}

func loadFindings() []Finding {
	data, err := os.ReadFile(verifRoot() + "/known_findings.json")
	if err != nil {
		return nil
	}
	var ff findingsFile
	if err := json.Unmarshal(data, &ff); err != nil {
		fmt.Println("known_findings.json:", err)
		os.Exit(2)
	}
	return ff.Findings
}

func (f Finding) matches(prop, name string) bool {
	if f.Property != prop {
		return false
	}
	return wildMatch(f.Obligation, name)
}

// wildMatch matches name against a pattern in which '*' stands for any substring.
func wildMatch(pat, name string) bool {
	parts := strings.Split(pat, "*")
	if len(parts) == 1 {
		return pat == name
	}
	if !strings.HasPrefix(name, parts[0]) {
		return false
	}
	name = name[len(parts[0]):]
	for i := 1; i < len(parts)-1; i++ {
		k := strings.Index(name, parts[i])
		if k < 0 {
			return false
		}
		name = name[k+len(parts[i]):]
	}
	return strings.HasSuffix(name, parts[len(parts)-1])
}

// propTags maps a property to the obligation tags it proves.
func propTags(prop string) map[string]bool {
	t := map[string]bool{prop: true}
	switch prop {
	case "C06":
		t["SAFETY"] = true
		t["TERM"] = true
	case "C07":
		t["FRAME"] = true
	}
	return t
}

func hasTag(o *symex.Oblig, tags map[string]bool) bool {
	for _, p := range o.Props {
		if tags[p] {
			return true
		}
	}
	return false
}

func funcServes(fc *contract.Func, tags map[string]bool) bool {
	if tags["SAFETY"] || tags["FRAME"] {
		return true
	}
	for _, p := range strings.Fields(fc.Opts["props"]) {
		if tags[p] {
			return true
		}
	}
	chk := func(cs []contract.Clause) bool {
		for _, c := range cs {
			for _, p := range c.Props {
				if tags[p] {
					return true
				}
			}
		}
		return false
	}
	if chk(fc.Requires) || chk(fc.Ensures) {
		return true
	}
	for _, l := range fc.Loops {
		if chk(l.Invariants) {
			return true
		}
	}
	for _, c := range fc.Calls {
		if chk(c.Asserts) {
			return true
		}
	}
	for _, r := range fc.Regions {
		if chk(r.Asserts) || chk(r.Assumes) {
			return true
		}
		for _, l := range r.Loops {
			if chk(l.Invariants) || chk(l.Entries) {
				return true
			}
		}
	}
	return false
}

type evidence struct {
	PropertyID  string         `json:"property_id"`
	Tier        string         `json:"tier"`
	Seed        int            `json:"seed"`
	Level       string         `json:"level"`
	Coverage    map[string]any `json:"coverage"`
	Assumptions []string       `json:"assumptions"`
	WallS       float64        `json:"wall_s"`
	Violations  int            `json:"violations"`
}

func runProperty(eng *symex.Engine, prop, tier string, t0 time.Time) int {
	seed, _ := strconv.Atoi(os.Getenv("VERIF_SEED"))
	if seed < 0 {
		seed = -seed
	}
	tags := propTags(prop)
	info := propInfo(prop)
	reps := eng.VerifyAll(func(fc *contract.Func) bool { return funcServes(fc, tags) })
	eng.VerifyLemmas()
	var sel []*symex.Oblig
	for _, o := range eng.Obligs {
		if hasTag(o, tags) {
			sel = append(sel, o)
		}
	}
	// vacuity guards: requires satisfiable, some exit reachable (only a proof of unsat is an alarm)
	var guards []*symex.Oblig
	for _, r := range reps {
		if r.ReqSat != nil {
			guards = append(guards, r.ReqSat)
		}
		if r.Canary != nil {
			guards = append(guards, r.Canary)
		}
	}
	opts := symex.DischargeOpts{Timeout: time.Duration(*flagTimeout) * time.Second, Jobs: *flagJobs}
	results := symex.Discharge(sel, opts)
	gres := symex.Discharge(guards, symex.DischargeOpts{Timeout: 5 * time.Second, Jobs: *flagJobs, MaxGroup: 1, KeepScripts: true})
	findings := loadFindings()
	violations := 0
	discharged := 0
	byKind := map[string]int{}
	bySolver := map[string]int{}
	var solverSecs, maxSecs float64
	var samples []any
	known := map[string]bool{}
	os.MkdirAll("/verif/replays", 0o755)
	var failed []symex.Result
	nReplays := 0
	for _, r := range results {
		byKind[r.O.Kind]++
		solverSecs += r.Secs
		if r.Secs > maxSecs {
			maxSecs = r.Secs
		}
		if r.Status == "unsat" {
			discharged++
			bySolver[r.By]++
			continue
		}
		failed = append(failed, r)
	}
	if len(results) > 0 {
		step := len(results)/6 + 1
		for i := seed % step; i < len(results); i += step {
			r := results[i]
			samples = append(samples, map[string]any{"obligation": r.O.Name, "kind": r.O.Kind, "status": r.Status, "by": r.By, "pos": r.O.Pos})
		}
	}
	vacuous := 0
	for _, g := range gres {
		if g.Status == "unsat" {
			vacuous++
			failed = append(failed, symex.Result{O: &symex.Oblig{Name: g.O.Name + " (vacuous: contradictory assumptions)", Kind: g.O.Kind, Func: g.O.Func}, Status: "vacuous", Script: g.Script,
				Output: "the assumptions of this function are unsatisfiable; every obligation would hold vacuously"})
		}
	}
	var funcs []any
	for _, r := range reps {
		funcs = append(funcs, map[string]any{"func": r.Func, "pos": r.SourcePos, "ssa_blocks": r.Blocks, "loops": r.Loops, "paths": r.Paths, "obligations_generated": r.Obligs, "outside_subset": r.Unsupp})
	}
	if len(sel) == 0 {
		failed = append(failed, symex.Result{O: &symex.Oblig{Name: prop + "/no-obligations", Kind: "vacuity"}, Status: "vacuous", Output: "no obligation was generated for this property: contracts missing or unbound"})
	}
	for _, f := range findings {
		if f.Status == "open" && f.Always && f.Property == prop {
			fmt.Printf("KNOWN-FINDING: property=%s %s\n", prop, f.What)
		}
	}
	for _, r := range failed {
		isKnown := false
		for _, f := range findings {
			if f.Status == "open" && !f.Always && f.matches(prop, r.O.Name) {
				isKnown = true
				if !known[f.Obligation] {
					known[f.Obligation] = true
					fmt.Printf("KNOWN-FINDING: property=%s %s\n", prop, f.What)
				}
			}
		}
		if isKnown {
			continue
		}
		violations++
		var rr *realReplay
		if nReplays < 8 {
			// the verifier's counterexample, replayed on the real code (adapters exist for some function families)
			if rr = replayOnRealCode(r); rr != nil {
				nReplays++
				r.Output = rr.text() + r.Output
			}
		}
		path := writeReplayWith(prop, r, rr)
		suffix := ""
		if rr == nil || !rr.Failed {
			suffix = " no-failing-input-found"
		}
		fmt.Printf("VIOLATION property=%s replay=%s obligation=%q status=%s%s\n", prop, path, r.O.Name, r.Status, suffix)
		if rr != nil && rr.Failed {
			for _, l := range strings.Split(rr.text(), "\n") {
				if strings.Contains(l, "REPLAY-FAIL") {
					fmt.Println("  " + l)
					break
				}
			}
		}
	}
	var selftest map[string]any
	if tier == "thorough" {
		selftest = runSelftest(prop)
	}
	wall := time.Since(t0).Seconds()
	ev := evidence{PropertyID: prop, Tier: tier, Seed: seed, Level: info.Level, WallS: wall, Violations: violations}
	ev.Coverage = map[string]any{
		"obligations":              len(results),
		"discharged":               discharged,
		"checker_cmd":              "bin/vcheck -prop " + prop + " -tier " + tier + " (VC generator over go/ssa of /repo's working tree; back ends z3-new 5.1.0, z3 4.8.12, cvc5 1.0)",
		"trusted_base":             trustedBase(eng),
		"explanation":              info.Explanation,
		"not_covered":              info.NotCovered,
		"functions_under_contract": funcs,
		"obligations_by_kind":      byKind,
		"discharged_by":            bySolver,
		"solver_seconds_total":     solverSecs,
		"solver_seconds_max":       maxSecs,
		"vacuity_guards":           map[string]any{"checked": len(gres), "contradictory": vacuous},
		"samples":                  samples,
		"known_findings_reported":  len(known),
		"contracts_sha256":         contractsHash(eng),
	}
	if selftest != nil {
		ev.Coverage["selftest_must_fail_corpus"] = selftest
	}
	ev.Assumptions = append(ev.Assumptions, globalAssumptions...)
	ev.Assumptions = append(ev.Assumptions, eng.Notes...)
	data, _ := json.MarshalIndent(ev, "", " ")
	os.MkdirAll("/verif/evidence", 0o755)
	if *flagRepo == "/repo" {
		os.WriteFile("/verif/evidence/"+prop+".json", data, 0o644)
	} else {
		// a scratch copy is being checked (seeded-change experiments): the registered evidence is left alone
		os.WriteFile(filepath.Join(os.TempDir(), "vcheck-evidence-"+prop+".json"), data, 0o644)
	}
	fmt.Printf("property=%s tier=%s functions=%d obligations=%d discharged=%d violations=%d wall=%.1fs\n", prop, tier, len(reps), len(results), discharged, violations, wall)
	if violations > 0 {
		return 1
	}
	return 0
}

var globalAssumptions = []string{
	"A-LEN: every slice and string length is at most 2^40; stream offsets at most 2^60",
	"A-CB: callbacks, interface-method and func-value calls return and do not touch the calling object or its scratch arrays",
	"A-OWN: scratch arrays owned by a parser/validator/writer object are not aliased by caller-visible slices (stated as requires on the entry points)",
	"machine integers: int/int64 arithmetic is exact with an explicit no-overflow obligation on every operation; narrower and unsigned types use wrap-around semantics",
	"allocation never fails; goroutines and scheduling are not modelled",
	"floating point arithmetic is uninterpreted (no property proof relies on it)",
	"the specification functions in /verif/spec are trusted (validated against encoding/json by go test ./spec)",
	"the VC generator itself (go/ssa semantics, memory model of DESIGN.md §3.2) is trusted",
}

func trustedBase(eng *symex.Engine) []string {
	tb := []string{"z3 4.8.12 / z3 5.1.0 / cvc5 1.0 (an obligation counts as discharged when one solver answers unsat and none answers sat)", "golang.org/x/tools/go/ssa v0.29.0 (SSA construction)", "vcheck VC generator (/verif/internal/symex)", "/verif/spec (executable specification)"}
	for _, f := range eng.Files {
		for _, fc := range f.Funcs {
			if fc.Trusted {
				tb = append(tb, "assumed contract: "+fc.Pkg+" "+fc.Key)
			}
		}
	}
	return tb
}

func contractsHash(eng *symex.Engine) string {
	h := sha256.New()
	for _, f := range eng.Files {
		data, _ := os.ReadFile(f.Path)
		h.Write(data)
	}
	return fmt.Sprintf("%x", h.Sum(nil))[:16]
}

func writeReplay(prop string, r symex.Result) string { return writeReplayWith(prop, r, nil) }

func writeReplayWith(prop string, r symex.Result, rr *realReplay) string {
	os.MkdirAll("/verif/replays", 0o755)
	h := sha256.Sum256([]byte(r.O.Name))
	path := fmt.Sprintf("/verif/replays/%s-%x.json", prop, h[:6])
	rec := map[string]any{"property": prop, "obligation": r.O.Name, "kind": r.O.Kind, "func": r.O.Func, "pos": r.O.Pos, "status": r.Status,
		"note": r.O.Note, "solver_output": r.Output, "script": r.Script, "replay_cmd": "bin/vcheck -replay " + path}
	if rr != nil {
		rec["real_code_replay"] = map[string]any{"failed_on_real_code": rr.Failed, "package": rr.Pkg, "test_source": rr.Source, "go_test_output": rr.Output, "model": rr.Witness,
			"how": "go test -overlay (the test is injected into the package, nothing is written to the repository) -run TestVcheckReplay ./" + rr.Pkg + "/"}
	}
	data, _ := json.MarshalIndent(rec, "", " ")
	os.WriteFile(path, data, 0o644)
	return path
}

// replay re-runs the SMT query stored in a replay file.
func replay(path string) int {
	data, err := os.ReadFile(path)
	if err != nil {
		fmt.Println(err)
		return 2
	}
	var rec map[string]any
	if err := json.Unmarshal(data, &rec); err != nil {
		fmt.Println(err)
		return 2
	}
	script, _ := rec["script"].(string)
	fmt.Printf("obligation: %v\n", rec["obligation"])
	if rc, ok := rec["real_code_replay"].(map[string]any); ok {
		// re-run the recorded counterexample on the repository's current code
		src, _ := rc["test_source"].(string)
		pkg, _ := rc["package"].(string)
		out, failed := runInjectedTest(*flagRepo, pkg, src)
		fmt.Print(out)
		if failed {
			fmt.Println("the recorded counterexample fails on the real code")
			return 1
		}
		fmt.Println("the recorded counterexample does not fail on the current code")
	}
	if script == "" {
		fmt.Println("no SMT script recorded (structural failure):", rec["solver_output"])
		return 1
	}
	v := solve.Decide(script, time.Duration(*flagTimeout)*time.Second, true)
	for _, r := range v.Results {
		fmt.Printf("%s: %s (%.2fs)\n", r.Solver, r.Answer, r.Secs)
	}
	if v.Status == "unsat" {
		fmt.Println("the recorded query is unsat now (it no longer fails)")
		return 0
	}
	return 1
}

// ---------------------------------------------------------------------------
// Must-fail corpus (thorough tier): every canary of the property is an in-memory edit of the repository that breaks the
// property; the named obligation must fail with it. A canary that is not detected means a vacuous or too weak contract;
// it is reported (SELFTEST ... MISSED) and recorded in the evidence, it is not a violation of the property by /repo.

type canary struct {
	Prop   string `json:"prop"`
	Func   string `json:"func"`
	Only   string `json:"only"`
	File   string `json:"file"`
	Old    string `json:"old"`
	New    string `json:"new"`
	Expect string `json:"expect"`
}

func runSelftest(prop string) map[string]any {
	data, err := os.ReadFile(verifRoot() + "/selftest.json")
	if err != nil {
		return nil
	}
	var corpus struct {
		Canaries []canary `json:"canaries"`
	}
	if err := json.Unmarshal(data, &corpus); err != nil {
		fmt.Println("selftest.json:", err)
		return nil
	}
	var list []canary
	for _, c := range corpus.Canaries {
		if c.Prop == prop {
			list = append(list, c)
		}
	}
	type outcome struct {
		c      canary
		status string
		oblig  string
	}
	res := make([]outcome, len(list))
	sem := make(chan bool, 3)
	done := make(chan int)
	for i, c := range list {
		go func(i int, c canary) {
			sem <- true
			defer func() { <-sem; done <- i }()
			args := []string{"-repo", *flagRepo, "-func", c.Func, "-nosave", "-timeout", "10", "-mutate", c.File + "@@" + c.Old + "@@" + c.New}
			if c.Only != "" {
				args = append(args, "-only", c.Only)
			}
			cmd := exec.Command(os.Args[0], args...)
			cmd.Env = append(os.Environ(), "GOFLAGS=-mod=mod", "GOPROXY=off", "GOSUMDB=off", "GOTOOLCHAIN=local")
			out, _ := cmd.CombinedOutput()
			res[i] = outcome{c: c, status: "MISSED"}
			for _, l := range strings.Split(string(out), "\n") {
				if strings.Contains(l, "mutate: pattern not found") || strings.Contains(l, "does not type-check") {
					res[i].status = "STALE"
				}
				if strings.HasPrefix(l, "FAIL") && strings.Contains(l, c.Expect) && res[i].status != "detected" {
					res[i].status = "detected"
					res[i].oblig = strings.TrimSpace(strings.TrimPrefix(l, "FAIL"))
				}
			}
		}(i, c)
	}
	for range list {
		<-done
	}
	detected := 0
	var rows []any
	for _, r := range res {
		if r.status == "detected" {
			detected++
		}
		fmt.Printf("SELFTEST property=%s canary=%s:%q -> %q %s %s\n", prop, r.c.File, firstLine(r.c.Old), firstLine(r.c.New), r.status, r.oblig)
		rows = append(rows, map[string]any{"file": r.c.File, "old": r.c.Old, "new": r.c.New, "function": r.c.Func, "status": r.status, "failing_obligation": r.oblig})
	}
	return map[string]any{"canaries": len(list), "detected": detected, "results": rows}
}

func firstLine(s string) string {
	s = strings.TrimSpace(s)
	if i := strings.IndexByte(s, '\n'); i >= 0 {
		return s[:i] + " ..."
	}
	return s
}
