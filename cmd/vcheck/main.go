package main

import (
	"flag"
	"fmt"
	"os"
	"path/filepath"
	"runtime/debug"
	"runtime/pprof"
	"sort"
	"strings"
	"time"

	"golang.org/x/tools/go/packages"
	"golang.org/x/tools/go/ssa"
	"golang.org/x/tools/go/ssa/ssautil"

	"verif/internal/contract"
	"verif/internal/smt"
	"verif/internal/symex"
)

var (
	flagFunc    = flag.String("func", "", "only functions whose key contains this")
	flagUnit    = flag.String("unit", "", "only this unit")
	flagDump    = flag.String("dump", "", "directory to dump SMT scripts of failed obligations")
	flagDumpAll = flag.Bool("dumpall", false, "dump every obligation")
	flagTimeout = flag.Int("timeout", 20, "solver timeout (s)")
	flagV       = flag.Bool("v", false, "verbose")
	flagPkgs    = flag.String("pkgs", "oj,gen,sen,jp,alt,asm,pretty,.", "ojg packages to load")
	flagJobs    = flag.Int("j", 16, "parallel solver jobs")
	flagList    = flag.Bool("list", false, "list obligations only")
	flagDiag    = flag.Bool("diag", false, "diagnose failures (failing conjuncts, candidate models)")
	flagProf    = flag.String("cpuprofile", "", "write cpu profile")
	flagOnly    = flag.String("only", "", "discharge only obligations whose name contains this")
	flagMutate  = flag.String("mutate", "", "in-memory mutation 'relpath@@old@@new' (first occurrence; testing the engine)")
)

const ojg = "github.com/ohler55/ojg"

func main() {
	debug.SetGCPercent(800)
	flag.Parse()
	if *flagProf != "" {
		f, _ := os.Create(*flagProf)
		pprof.StartCPUProfile(f)
		defer pprof.StopCPUProfile()
	}
	t0 := time.Now()
	var pats []string
	for _, p := range strings.Split(*flagPkgs, ",") {
		if p == "." {
			pats = append(pats, ojg)
		} else {
			pats = append(pats, ojg+"/"+p)
		}
	}
	pats = append(pats, "verif/spec")
	cfg := &packages.Config{Mode: packages.LoadAllSyntax, Dir: "/verif", BuildFlags: []string{"-tags=verif"},
		Env: append(os.Environ(), "GOFLAGS=-mod=mod", "GOPROXY=off", "GOSUMDB=off", "GOTOOLCHAIN=local")}
	if *flagMutate != "" {
		parts := strings.SplitN(*flagMutate, "@@", 3)
		if len(parts) != 3 {
			fmt.Println("bad -mutate")
			os.Exit(2)
		}
		path := filepath.Join("/repo", parts[0])
		data, err := os.ReadFile(path)
		if err != nil || !strings.Contains(string(data), parts[1]) {
			fmt.Println("mutate: pattern not found in", path)
			os.Exit(2)
		}
		cfg.Overlay = map[string][]byte{path: []byte(strings.Replace(string(data), parts[1], parts[2], 1))}
	}
	pkgs, err := packages.Load(cfg, pats...)
	if err != nil {
		fmt.Println("load:", err)
		os.Exit(2)
	}
	if packages.PrintErrors(pkgs) > 0 {
		os.Exit(2)
	}
	prog, _ := ssautil.AllPackages(pkgs, ssa.NaiveForm|ssa.GlobalDebug)
	prog.Build()
	eng := symex.NewEngine(prog, pkgs)
	// contract files
	for _, p := range pkgs {
		if !strings.HasPrefix(p.PkgPath, ojg) || len(p.GoFiles) == 0 {
			continue
		}
		dir := filepath.Dir(p.GoFiles[0])
		path := filepath.Join(dir, "zz_verif_contracts.go")
		if _, err := os.Stat(path); err == nil {
			f, err := contract.ParseFile(path, p.PkgPath)
			if err != nil {
				fmt.Println("contract:", err)
				os.Exit(2)
			}
			if err := eng.AddContracts(f); err != nil {
				fmt.Println("contract:", err)
				os.Exit(2)
			}
		}
	}
	ax, _ := filepath.Glob("/verif/axioms/*.contracts")
	for _, a := range ax {
		f, err := contract.ParseFile(a, "")
		if err != nil {
			fmt.Println("axioms:", err)
			os.Exit(2)
		}
		if err := eng.AddContracts(f); err != nil {
			fmt.Println("axioms:", err)
			os.Exit(2)
		}
	}
	fmt.Printf("loaded in %.1fs\n", time.Since(t0).Seconds())
	reps := eng.VerifyAll(func(fc *contract.Func) bool {
		if *flagUnit != "" && fc.Unit != *flagUnit {
			return false
		}
		if *flagFunc != "" && !strings.Contains(fc.Key, *flagFunc) {
			return false
		}
		return true
	})
	for _, r := range reps {
		fmt.Printf("func %-40s blocks=%d loops=%d paths=%d exits=%d obligations=%d %s\n", r.Func, r.Blocks, r.Loops, r.Paths, r.Exits, r.Obligs, r.Unsupp)
	}
	fmt.Printf("generated %d obligations in %.1fs\n", len(eng.Obligs), time.Since(t0).Seconds())
	if *flagList {
		for _, o := range eng.Obligs {
			fmt.Println(o.Name)
		}
		return
	}
	if *flagOnly != "" {
		var keep []*symex.Oblig
		for _, o := range eng.Obligs {
			if strings.Contains(o.Name, *flagOnly) {
				keep = append(keep, o)
			}
		}
		eng.Obligs = keep
	}
	// discharge
	results := symex.Discharge(eng.Obligs, symex.DischargeOpts{Timeout: time.Duration(*flagTimeout) * time.Second, Jobs: *flagJobs, Diagnose: *flagDiag})
	nfail := 0
	byStatus := map[string]int{}
	var slow []symex.Result
	for i, r := range results {
		byStatus[r.Status]++
		if r.Status != "unsat" {
			nfail++
			fmt.Printf("FAIL [%s] %s  (%s) %s\n", r.Status, r.O.Name, r.O.Pos, r.O.Note)
			if r.Diag != "" {
				fmt.Print(r.Diag)
			}
			if *flagDump != "" {
				os.MkdirAll(*flagDump, 0o755)
				fn := filepath.Join(*flagDump, fmt.Sprintf("fail%04d.smt2", i))
				os.WriteFile(fn, []byte("; "+r.O.Name+"\n"+r.Script), 0o644)
				os.WriteFile(fn+".out", []byte(r.Output), 0o644)
			}
		}
		if r.Secs > 2 {
			slow = append(slow, r)
		}
		if *flagV && r.Status == "unsat" {
			fmt.Printf("ok   [%s %.2fs] %s\n", r.By, r.Secs, r.O.Name)
		}
	}
	sort.Slice(slow, func(i, j int) bool { return slow[i].Secs > slow[j].Secs })
	for i, r := range slow {
		if i >= 10 {
			break
		}
		fmt.Printf("slow %.1fs %s\n", r.Secs, r.O.Name)
	}
	fmt.Printf("obligations=%d %v failed=%d wall=%.1fs\n", len(results), byStatus, nfail, time.Since(t0).Seconds())
	for _, n := range eng.Notes {
		fmt.Println("note:", n)
	}
	_ = smt.True
	if nfail > 0 {
		os.Exit(1)
	}
}
