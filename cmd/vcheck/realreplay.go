package main

// Replay of a verifier counterexample on the real code.
//
// For a failing obligation whose solver answer is sat, the model values of the obligation's witness terms (the named
// entry values of the region contract it belongs to) are turned into concrete arguments of the real function; a Go test
// is generated, injected into the repository package with `go test -overlay` (nothing is written to the repository) and
// run. The test compares the result of the real code with the documented semantics (the executable specification in
// /verif/spec, copied into the test verbatim). Only if the test fails on the real code is the violation reported with a
// replayed input; otherwise the VIOLATION line ends with no-failing-input-found.
//
// Model values of uninterpreted sorts (float64 payloads, string contents) carry no concrete value: for those the test
// tries a small fixed pool of candidates around the concrete operands of the model (model-guided search).

import (
	"encoding/json"
	"fmt"
	"os"
	"os/exec"
	"path/filepath"
	"regexp"
	"sort"
	"strings"
	"time"

	"verif/internal/symex"
)

type realReplay struct {
	Pkg     string // repository package directory (relative), e.g. "jp"
	Source  string // test source injected as <pkg>/zz_vcheck_replay_test.go
	Witness map[string]symex.WVal
	Output  string
	Models  int  // number of models tried
	Failed  bool // the generated test failed on the real code: the counterexample is real
}

// replayOnRealCode returns nil when no adapter exists for the obligation or no model could be obtained.
func replayOnRealCode(r symex.Result) *realReplay {
	o := r.O
	if o == nil || r.Status != "sat" || o.Region == "" || len(o.Report) == 0 {
		return nil
	}
	var gen func(map[string]symex.WVal) (string, string)
	switch {
	case (strings.HasPrefix(o.Func, "jp.(Expr).") || o.Func == "jp.(Nth).locate") && (strings.HasPrefix(o.Region, "nth") || strings.HasPrefix(o.Region, "slice") || strings.HasPrefix(o.Region, "union")):
		gen = func(w map[string]symex.WVal) (string, string) { return "jp", jpIndexTest(o.Region, w) }
	case o.Func == "jp.(Nth).remove" || o.Func == "jp.(Slice).remove":
		gen = func(w map[string]symex.WVal) (string, string) { return "jp", jpRemoveTest(o.Func, w) }
	case o.Func == "jp.evalStack" && strings.HasPrefix(o.Region, "op"):
		gen = func(w map[string]symex.WVal) (string, string) { return "jp", jpEvalTest(o.Region, w) }
	default:
		return nil
	}
	var rr *realReplay
	// small models first; a model that does not fail on the real code (the failing obligation may rest on an
	// abstraction, e.g. an uncontracted callee) is excluded and the solver is asked for another one, a few times
	var tried []map[string]symex.WVal
	for _, bound := range []int64{12, 12, 12, 12, 12, 1000, 0} {
		w, _, ok := symex.Witness(o, bound, 10*time.Second, tried)
		if !ok {
			continue
		}
		tried = append(tried, w)
		pkg, src := gen(w)
		if src == "" {
			continue
		}
		rr = &realReplay{Pkg: pkg, Source: src, Witness: w}
		rr.Output, rr.Failed = runInjectedTest(*flagRepo, pkg, src)
		rr.Models = len(tried)
		if rr.Failed {
			return rr
		}
	}
	return rr
}

// runInjectedTest runs src as an in-package test of <repo>/<pkg> through an overlay. failed reports a test failure that
// carries the REPLAY-FAIL marker (build errors and time-outs are not failures of the real code).
func runInjectedTest(repo, pkg, src string) (string, bool) {
	dir, err := os.MkdirTemp("", "vcheck-replay")
	if err != nil {
		return err.Error(), false
	}
	defer os.RemoveAll(dir)
	tf := filepath.Join(dir, "replay_test.go")
	os.WriteFile(tf, []byte(src), 0o644)
	ov := map[string]any{"Replace": map[string]string{filepath.Join(repo, pkg, "zz_vcheck_replay_test.go"): tf}}
	data, _ := json.Marshal(ov)
	ovf := filepath.Join(dir, "ov.json")
	os.WriteFile(ovf, data, 0o644)
	cmd := exec.Command("go", "test", "-overlay", ovf, "-vet=off", "-count=1", "-timeout", "60s", "-run", "TestVcheckReplay", "./"+pkg+"/")
	cmd.Dir = repo
	cmd.Env = append(os.Environ(), "GOFLAGS=-mod=mod", "GOPROXY=off", "GOSUMDB=off", "GOTOOLCHAIN=local")
	out, err := cmd.CombinedOutput()
	text := string(out)
	if len(text) > 6000 {
		text = text[:6000] + "\n..."
	}
	return text, err != nil && strings.Contains(text, "REPLAY-FAIL")
}

// specSource is /verif/spec/jp.go without its package clause: the executable specification is copied into the
// generated test mechanically, so that the oracle of the replay is the specification the contracts refer to.
func specSource() string {
	data, err := os.ReadFile(verifRoot() + "/spec/jp.go")
	if err != nil {
		return ""
	}
	return regexp.MustCompile(`(?m)^package spec\s*$`).ReplaceAllString(string(data), "")
}

func wInt(w map[string]symex.WVal, names ...string) (string, bool) {
	for _, n := range names {
		if v, ok := w[n]; ok && v.Kind == "int" {
			return v.Int, true
		}
	}
	return "", false
}

// jpIndexTest: index, slice and union-index fragments on []any and gen.Array through Get, First and Has, as the last
// fragment and followed by a child fragment, at the parameters of the model.
func jpIndexTest(region string, w map[string]symex.WVal) string {
	n, ok := wInt(w, "n")
	if !ok {
		return ""
	}
	var frag, want string
	knownSkip := "false"
	switch {
	case strings.HasPrefix(region, "slice"):
		start, ok1 := wInt(w, "start0")
		end, ok2 := wInt(w, "end0")
		step, ok3 := wInt(w, "step0")
		if !ok1 || !ok2 || !ok3 || step == "0" {
			return ""
		}
		frag = fmt.Sprintf("Slice(%s, %s, %s)", start, end, step)
		want = fmt.Sprintf("wantSlice(n, %s, %s, %s)", start, end, step)
		knownSkip = fmt.Sprintf("(%s > 1 || %s < -1)", step, step)
	default:
		i, ok1 := wInt(w, "i0")
		if !ok1 {
			return ""
		}
		if strings.HasPrefix(region, "union") {
			frag = fmt.Sprintf("Union(%s)", i)
		} else {
			frag = fmt.Sprintf("Nth(%s)", i)
		}
		want = fmt.Sprintf("wantIndex(n, %s)", i)
	}
	return `package jp

import (
	"fmt"
	"reflect"
	"testing"

	"github.com/ohler55/ojg/gen"
)
` + specSource() + `
func wantIndex(n, i int) []int {
	if k := NormIndex(i, n); k >= 0 {
		return []int{k}
	}
	return nil
}

// wantSlice: start inclusive to end exclusive by step, negative bounds from the end, a negative step walks downwards.
func wantSlice(n, start, end, step int) (out []int) {
	lo := SliceLo(start, n)
	if n <= lo {
		return nil
	}
	if 0 < step {
		for i, hi := lo, SliceHi(end, n); i < hi; i += step {
			out = append(out, i)
		}
	} else {
		for i, hi := lo, SliceHiDown(end, n); hi < i; i += step {
			out = append(out, i)
		}
	}
	return
}

func toInts(vs []any) (out []int) {
	for _, v := range vs {
		switch tv := v.(type) {
		case int:
			out = append(out, tv)
		case gen.Int:
			out = append(out, int(tv))
		default:
			out = append(out, -1)
		}
	}
	return
}

func TestVcheckReplay(t *testing.T) {
	n := ` + n + `
	if n < 0 || 100000 < n {
		t.Skip("model array too large to build")
	}
	want := ` + want + `
	for _, last := range []bool{true, false} {
		for _, kind := range []string{"[]any", "gen.Array"} {
			x := R().` + frag + `
			if !last {
				x = x.Child("x")
				if len(want) == 0 && ` + knownSkip + ` {
					continue // recorded known finding (empty range, |step| > 1, inner fragment): not what is being replayed
				}
			}
			var data any
			if kind == "[]any" {
				a := make([]any, n)
				for i := range a {
					if last {
						a[i] = i
					} else {
						a[i] = map[string]any{"x": i}
					}
				}
				data = a
			} else {
				a := make(gen.Array, n)
				for i := range a {
					if last {
						a[i] = gen.Int(i)
					} else {
						a[i] = gen.Object{"x": gen.Int(i)}
					}
				}
				data = a
			}
			func() {
				defer func() {
					if r := recover(); r != nil {
						t.Errorf("REPLAY-FAIL %s on %s of length %d: panic: %v", x, kind, n, r)
					}
				}()
				got := toInts(x.Get(data))
				if !reflect.DeepEqual(got, want) && !(len(got) == 0 && len(want) == 0) {
					t.Errorf("REPLAY-FAIL %s.Get on %s of length %d: got elements %v, the path denotes %v", x, kind, n, got, want)
				}
				first, found := x.FirstFound(data)
				if found != (0 < len(want)) || (found && fmt.Sprint(toInts([]any{first})[0]) != fmt.Sprint(want[0])) {
					t.Errorf("REPLAY-FAIL %s.FirstFound on %s of length %d: got %v %v, the path denotes %v", x, kind, n, first, found, want)
				}
				if has := x.Has(data); has != (0 < len(want)) {
					t.Errorf("REPLAY-FAIL %s.Has on %s of length %d: got %v, the path denotes %v", x, kind, n, has, want)
				}
				if last {
					var located []any
					for _, loc := range x.Locate(data, 0) {
						located = append(located, loc.First(data))
					}
					if li := toInts(located); !reflect.DeepEqual(li, want) && !(len(li) == 0 && len(want) == 0) {
						t.Errorf("REPLAY-FAIL %s.Locate on %s of length %d: locations lead to %v, the path denotes %v", x, kind, n, li, want)
					}
				}
			}()
		}
	}
}
`
}

// jpRemoveTest: Expr.Remove of an index or slice fragment on []any and gen.Array at the parameters of the model: the
// result must be the array without exactly the elements the fragment denotes (the denotation Get uses).
func jpRemoveTest(fn string, w map[string]symex.WVal) string {
	n, ok := wInt(w, "n")
	if !ok {
		return ""
	}
	var frag, want string
	if strings.Contains(fn, "Slice") {
		start, ok1 := wInt(w, "start0")
		end, ok2 := wInt(w, "end0")
		step, ok3 := wInt(w, "step0")
		if !ok1 || !ok2 || !ok3 || step == "0" {
			return ""
		}
		frag = fmt.Sprintf("Slice(%s, %s, %s)", start, end, step)
		want = fmt.Sprintf("wantSlice(n, %s, %s, %s)", start, end, step)
	} else {
		i, ok1 := wInt(w, "i0")
		if !ok1 {
			return ""
		}
		frag = fmt.Sprintf("Nth(%s)", i)
		want = fmt.Sprintf("wantIndex(n, %s)", i)
	}
	src := jpIndexTest("nthX", map[string]symex.WVal{"n": w["n"], "i0": {Kind: "int", Int: "0"}})
	k := strings.Index(src, "func TestVcheckReplay")
	return src[:k] + `func TestVcheckReplay(t *testing.T) {
	n := ` + n + `
	if n < 0 || 100000 < n {
		t.Skip("model array too large to build")
	}
	sel := map[int]bool{}
	for _, i := range ` + want + ` {
		sel[i] = true
	}
	var keep []int
	for i := 0; i < n; i++ {
		if !sel[i] {
			keep = append(keep, i)
		}
	}
	x := R().` + frag + `
	for _, kind := range []string{"[]any", "gen.Array"} {
		var data any
		if kind == "[]any" {
			a := make([]any, n)
			for i := range a {
				a[i] = i
			}
			data = a
		} else {
			a := make(gen.Array, n)
			for i := range a {
				a[i] = gen.Int(i)
			}
			data = a
		}
		func() {
			defer func() {
				if r := recover(); r != nil {
					t.Errorf("REPLAY-FAIL %s.Remove on %s of length %d: panic: %v", x, kind, n, r)
				}
			}()
			out, err := x.Remove(data)
			if err != nil {
				t.Errorf("REPLAY-FAIL %s.Remove on %s of length %d: %v", x, kind, n, err)
				return
			}
			var got []int
			switch to := out.(type) {
			case []any:
				got = toInts(to)
			case gen.Array:
				for _, v := range to {
					got = append(got, toInts([]any{v})...)
				}
			}
			if !reflect.DeepEqual(got, keep) && !(len(got) == 0 && len(keep) == 0) {
				t.Errorf("REPLAY-FAIL %s.Remove on %s of length %d leaves %v; without exactly the selected elements it is %v", x, kind, n, got, keep)
			}
		}()
	}
	_ = fmt.Sprint
}
`
}

// jpEvalTest: one operator cell of evalStack at the operand kinds of the model; integer and boolean operands are the
// model's, float and string payloads (uninterpreted in the model) are tried from a small pool.
func jpEvalTest(region string, w map[string]symex.WVal) string {
	opName := map[string]string{"opEq": "eq", "opNeq": "neq", "opLt": "lt", "opGt": "gt", "opLte": "lte", "opGte": "gte", "opOr": "or", "opAnd": "and", "opNot": "not"}[region]
	if opName == "" {
		return ""
	}
	cands := func(v symex.WVal, other symex.WVal) string {
		if v.Kind != "any" {
			return ""
		}
		switch v.Ctor {
		case "any_nil":
			return "nil"
		case "any_int":
			if v.GoType == "int64" {
				return "int64(" + v.Int + ")"
			}
			return "int64(" + v.Int + "), int(7)"
		case "any_bool":
			return fmt.Sprint(v.Bool)
		case "any_f64":
			c := "-2.5, -0.5, 0.0, 0.5, 2.5, 1e300, -1e300, math.NaN()"
			if other.Ctor == "any_int" {
				c += fmt.Sprintf(", float64(int64(%s)), float64(int64(%s)) - 0.5, float64(int64(%s)) + 0.5", other.Int, other.Int, other.Int)
			}
			return c
		case "any_str":
			return `"", "a", "b", "ab"`
		case "any_slice":
			return "[]any{1}"
		default:
			return `map[string]any{"a": 1}`
		}
	}
	l, r := w["l0"], w["r0"]
	lc, rc := cands(l, r), cands(r, l)
	if lc == "" || rc == "" {
		return ""
	}
	return `package jp

import (
	"math"
	"testing"
)

var _ = math.NaN

func replayNum(v any) (float64, int64, int) {
	switch tv := v.(type) {
	case int64:
		return 0, tv, 1
	case float64:
		return tv, 0, 2
	}
	return 0, 0, 0
}

// documented semantics: numbers compare by value across int64 and float64, strings lexically, other pairings are false
func replayLess(l, r any, orEqual bool) bool {
	lf, li, lk := replayNum(l)
	rf, ri, rk := replayNum(r)
	switch {
	case lk == 1 && rk == 1:
		return li < ri || (orEqual && li == ri)
	case lk != 0 && rk != 0:
		if lk == 1 {
			lf = float64(li)
		}
		if rk == 1 {
			rf = float64(ri)
		}
		return lf < rf || (orEqual && lf == rf)
	}
	ls, ok1 := l.(string)
	rs, ok2 := r.(string)
	if ok1 && ok2 {
		return ls < rs || (orEqual && ls == rs)
	}
	return false
}

func replayEqual(l, r any) bool {
	lf, li, lk := replayNum(l)
	rf, ri, rk := replayNum(r)
	switch {
	case lk == 1 && rk == 1:
		return li == ri
	case lk != 0 && rk != 0:
		if lk == 1 {
			lf = float64(li)
		}
		if rk == 1 {
			rf = float64(ri)
		}
		return lf == rf
	}
	switch tl := l.(type) {
	case nil:
		return r == nil
	case string:
		tr, ok := r.(string)
		return ok && tl == tr
	case bool:
		tr, ok := r.(bool)
		return ok && tl == tr
	case int:
		tr, ok := r.(int)
		return ok && tl == tr
	}
	return false // containers and mismatched kinds are simply unequal
}

func replayTruthy(v any) bool { b, _ := v.(bool); return b }

func TestVcheckReplay(t *testing.T) {
	lefts := []any{` + lc + `}
	rights := []any{` + rc + `}
	for _, l := range lefts {
		for _, r := range rights {
			var want bool
			switch "` + opName + `" {
			case "eq":
				want = replayEqual(l, r)
			case "neq":
				want = !replayEqual(l, r)
			case "lt":
				want = replayLess(l, r, false)
			case "gt":
				want = replayLess(r, l, false)
			case "lte":
				want = replayLess(l, r, true)
			case "gte":
				want = replayLess(r, l, true)
			case "or":
				want = replayTruthy(l) || replayTruthy(r)
			case "and":
				want = replayTruthy(l) && replayTruthy(r)
			case "not":
				want = !replayTruthy(l)
			}
			func() {
				defer func() {
					if p := recover(); p != nil {
						t.Errorf("REPLAY-FAIL evalStack(` + opName + `, %#v, %#v): panic: %v", l, r, p)
					}
				}()
				got := evalStack([]any{` + opName + `, l, r})[0]
				if b, ok := got.(bool); !ok || b != want {
					t.Errorf("REPLAY-FAIL evalStack(` + opName + `, %#v, %#v) = %#v, the operator documentation gives %v", l, r, got, want)
				}
			}()
		}
	}
}
`
}

// replayText renders a replay record for the replay file and the terminal.
func (rr *realReplay) text() string {
	var sb strings.Builder
	if rr.Failed {
		sb.WriteString("REPLAYED-ON-REAL-CODE: the counterexample of the verifier fails on the repository's code\n")
	} else {
		sb.WriteString("replay on the real code did not fail (the model depends on parts the replay cannot make concrete)\n")
	}
	var names []string
	for n := range rr.Witness {
		names = append(names, n)
	}
	sort.Strings(names)
	sb.WriteString("model:")
	for _, n := range names {
		sb.WriteString(" " + n + "=" + rr.Witness[n].Raw)
	}
	sb.WriteString("\n")
	for _, l := range strings.Split(rr.Output, "\n") {
		if strings.Contains(l, "REPLAY-FAIL") {
			sb.WriteString(strings.TrimSpace(l) + "\n")
		}
	}
	return sb.String()
}
