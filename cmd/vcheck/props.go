package main

// propMeta describes what the check of a property covers (goes into the evidence).
type propMeta struct {
	Level       string
	Explanation string
	NotCovered  string
}

func propInfo(prop string) propMeta {
	if m, ok := propTable[prop]; ok {
		return m
	}
	return propMeta{Level: "other", Explanation: "contract obligations tagged " + prop + " on the functions listed under functions_under_contract"}
}

var propTable = map[string]propMeta{
	"C01": {Level: "proof", Explanation: "Simulation proof: the concrete state of the oj Validator after every byte is related (VRel) to the state of the RFC 8259 specification automaton spec.Step after the same prefix, for every mode table cell, byte, container stack and fast path; the buffer function's postcondition gives accept/reject and the entry point Validate proves err == nil <=> spec accepts the whole text (optional BOM), from an arbitrary prior Validator state. Lemma ErrAbsorbing (by induction) connects the first error to rejection of the whole text.",
		NotCovered: "the sen front-ends are not under contract (DESIGN.md); gen.Parser (parseBuffer, add, Parse, ParseReader) is covered by the oj.Parser contract restated over gen.Node; oj.Tokenizer (tokenizeBuffer, Parse, Load) is covered like the Validator plus number-buffer safety; oj.Parser is covered for acceptance, positions and build-stack safety (parseBuffer simulation PRel, Parse and ParseReader entry points, option-less calls); the spec automaton is validated against encoding/json, not proved"},
	"C03": {Level: "other", Explanation: "Chunking independence of oj.Parser.ParseReader: the reader loop is verified against a ghost stream R delivered in arbitrary pieces by an arbitrary io.Reader (assumed: 0 <= n <= len(p)); the loop invariant relates the Parser after every buffer to the specification automaton after the same prefix of the stream (the relation proved for parseBuffer), so err == nil implies the specification accepts the delivered stream and a ParseError carries the specification's first-error position, neither depending on where the buffers were cut. oj.Parser.Parse has the same postcondition over the same specification, which is the agreement point between the []byte and the reader front-end.",
		NotCovered: "value trees (only acceptance, positions and the build-stack shape are specified, not the payload of strings and numbers), the sen front-ends, multi-document mode of the parsers; oj.Tokenizer.Load and gen.Parser.ParseReader are covered like oj.Parser.ParseReader; known finding: a BOM split over short first reads"},
	"C12": {Level: "other", Explanation: "Filter operators: (1) totality — jp.evalStack (every operator x operand-kind cell of the prefix-notation evaluator) and jp.normalize are executed symbolically for arbitrary operand values and every implicit runtime-fault obligation is discharged, among them '== on interface values whose dynamic type is not comparable' (the obligation that failed before fix e7804e5); (2) typed comparison semantics — statement contracts on the case clauses of == != < > <= >= || && ! state the truth value written to sstack[i] as a function of the two operands for all operand kinds (predicates CmpEq/CmpLt/CmpLe: int64 and float64 compare by value after converting the integer, strings lexically, every other pairing is false; != is the complement of == for every pair of operands); the entry assumption of each clause (0 <= i < len(sstack)) is an obligation of the whole-function pass. Float operations are uninterpreted functions shared by code and contract (f64_of_int, f64_lt, f64_le, f64_eq), so the contract pins which conversion and which comparison is performed, not IEEE arithmetic.",
		NotCovered: "evalWithRoot/expandStack (sub-path resolution and multi-value expansion), arithmetic and the function-like operators (in, empty, has, exists, length, count, match, search) are covered for faults only, parsing and printing of scripts; same() is trusted (reflect) with an assumed contract (deterministic, agrees with == on scalars)"},
	"C19": {Level: "other", Explanation: "Totality of alt.Diff/Compare/Match: the difference recursion diff, Match and their helpers (asInt, asFloat, ignoreIndex, ignoreKey) are executed symbolically with thin contracts for arbitrary values on both sides and arbitrary ignore paths (recursive calls by contract); every implicit runtime-fault obligation (index, slice bounds, nil map, type assertion) is discharged. The interface-header comparison through unsafe.Pointer is modelled as a function of the interface value (A-UNSAFE).",
		NotCovered: "soundness and completeness of the reported paths (only absence of faults is specified), gen data, time tolerance"},
	"C09": {Level: "other", Explanation: "Positions: VRel carries line == spec line and noff == offset of last newline; every error return of validateBuffer is proved to carry the line/column of the first byte on which spec.Step enters Err, or of the end of input for incomplete text (predicate VErr); Validate lifts this to PosOK over the whole text via ErrAbsorbing.",
		NotCovered: "other front-ends and reader chunking not yet under contract; known finding: 'expected BOM at 1:3'"},
	"C06": {Level: "other", Explanation: "Every implicit safety obligation (index, slice bounds, nil dereference, nil map write, type assertion, division by zero, int overflow, negative make) and every loop variant generated on the paths of the functions under contract is discharged.",
		NotCovered: "functions not under contract; Unmarshal/Recompose (reflection)"},
	"C07": {Level: "other", Explanation: "Entry points are verified from a havoced prior object state (only the object invariant and the documented option fields are assumed), so the result is a function of the call's arguments; frame obligations prove that only the declared fields and the object's own scratch arrays are written and that the caller's buffer is never written.",
		NotCovered: "pooled package-level wrappers and writers not yet under contract"},
	"C20": {Level: "other", Explanation: "Safety sweep: every evaluation function of the asm package is executed symbolically with thin contracts for arbitrary argument lists (argument evaluation opaque); every implicit runtime-fault obligation is discharged; explicit panic(error) is the only way to reject arguments.",
		NotCovered: "determinism, String()/Simplify() rebuild, documented semantics of each function, $.src non-interference"},
	"C04": {Level: "other", Explanation: "String encoder core: AppendJSONString verified for all strings and both htmlSafe values (safety, pending-segment-is-plain invariant, growth/ownership) plus closed table lemmas over the real jMap constant.",
		NotCovered: "emitted escape bytes themselves (only the copied-through segments and the table are specified), container writers, options, WriteLimit streaming, pretty writer, round trip"},
	"C10": {Level: "other", Explanation: "AppendSENString verified for all strings: in-place unquote is memory safe; a bare result implies length limit, allowed first byte and token bytes only; table-compatibility lemmas between ojg.senMap and sen.valueMap/sen.tokenMap.",
		NotCovered: "SEN parser behaviour, writers and options, numbers; known findings: reserved words and leading signs are written bare"},
	"C14": {Level: "other", Explanation: "jp.AppendString and Child.tokenOk verified with table lemmas over jp.jMap and jp.tokenMap.",
		NotCovered: "parse(String(x)) == x, script and equation parentheses, evaluation equality"},
	"C05": {Level: "other", Explanation: "Region contracts on Expr.Get ([]any data): index, slice (bounds normalisation, four loops) and union-index clauses against spec.NormIndex/SliceLo/SliceHi/SliceHiDown.",
		NotCovered: "descent, wildcard, filters, child, gen/Indexed/reflect container kinds, result order across fragments"},
	"C11": {Level: "other", Explanation: "Same region contracts as C05 (shared spec functions are the agreement point).",
		NotCovered: "First/Has/Locate/Walk/GetNodes/FirstNode and non-[]any representations are not yet under contract"},
	"C02": {Level: "other", Explanation: "Number accumulation contracts of gen.Number (Reset, FillBig, AddDigit, AddFrac, AddExp, AsNum, AsNode): exactness of the uint64 accumulation (no wrap-around for any digit count), no digit lost once the text form is in use, the text form written by FillBig has every digit of the accumulators (length against spec.Digits10), plain integers that fit int64 stay integers; the accumulator invariant NumInv is carried through the inline digit loops of oj.Parser, oj.Tokenizer and gen.Parser.",
		NotCovered: "the numeric value returned (float conversion, contents of the text form), correspondence between the digits consumed and the accumulators in the parsers, strings, events"},
}
