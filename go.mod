module verif

go 1.23

require golang.org/x/tools v0.29.0

require (
	github.com/ohler55/ojg v0.0.0-00010101000000-000000000000 // indirect
	golang.org/x/mod v0.22.0 // indirect
	golang.org/x/sync v0.10.0 // indirect
)

replace github.com/ohler55/ojg => /repo
