package spec

// JSONPath index and slice denotation (documented semantics: a negative index
// counts from the end; a slice runs from start inclusive to end exclusive by
// step; a negative step walks downwards).

// NormIndex is the position index i denotes in an array of length n, or -1 if
// it denotes no element.
func NormIndex(i, n int) int {
	if i < 0 {
		i = n + i
	}
	if 0 <= i && i < n {
		return i
	}
	return -1
}
