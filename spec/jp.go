package spec

// JSONPath index and slice denotation (documented semantics: a negative index
// counts from the end; a slice runs from start inclusive to end exclusive by
// step; a negative step walks downwards).

// NormIndex is the position index i denotes in an array of length n, or -1 if
// it denotes no element.
func NormIndex(i, n int) int {
	if i < 0 {
		i = n + i
	}
	if 0 <= i && i < n {
		return i
	}
	return -1
}

// SliceLo is the first index of a slice with the given start on an array of
// length n: a negative start counts from the end and is clamped to 0.
func SliceLo(start, n int) int {
	if start < 0 {
		start = n + start
		if start < 0 {
			return 0
		}
	}
	return start
}

// SliceHi is the exclusive upper bound for a positive step: a negative end
// counts from the end (and may stay negative: empty), an end past the array is
// clamped to n.
func SliceHi(end, n int) int {
	if end < 0 {
		return n + end
	}
	if n < end {
		return n
	}
	return end
}

// SliceHiDown is the exclusive lower bound for a negative step: as SliceHi but
// never below -1.
func SliceHiDown(end, n int) int {
	e := SliceHi(end, n)
	if e < -1 {
		return -1
	}
	return e
}
