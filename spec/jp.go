package spec

// JSONPath index and slice denotation (documented semantics: a negative index
// counts from the end; a slice runs from start inclusive to end exclusive by
// step; a negative step walks downwards).

// NormIndex is the position index i denotes in an array of length n, or -1 if
// it denotes no element.
func NormIndex(i, n int) int {
	if i < 0 {
		i = n + i
	}
	if 0 <= i && i < n {
		return i
	}
	return -1
}

// SliceLo is the first index of a slice with the given start on an array of
// length n: a negative start counts from the end and is clamped to 0.
func SliceLo(start, n int) int {
	if start < 0 {
		start = n + start
		if start < 0 {
			return 0
		}
	}
	return start
}

// SliceHi is the exclusive upper bound for a positive step: a negative end
// counts from the end (and may stay negative: empty), an end past the array is
// clamped to n.
func SliceHi(end, n int) int {
	if end < 0 {
		return n + end
	}
	if n < end {
		return n
	}
	return end
}

// SliceHiDown is the exclusive lower bound for a negative step: as SliceHi but
// never below -1.
func SliceHiDown(end, n int) int {
	e := SliceHi(end, n)
	if e < -1 {
		return -1
	}
	return e
}

// Digits10 is the number of decimal digits of a non-negative integer below 2^64 (1 for 0).
func Digits10(i int) int {
	if i < 10 {
		return 1
	}
	if i < 100 {
		return 2
	}
	if i < 1000 {
		return 3
	}
	if i < 10000 {
		return 4
	}
	if i < 100000 {
		return 5
	}
	if i < 1000000 {
		return 6
	}
	if i < 10000000 {
		return 7
	}
	if i < 100000000 {
		return 8
	}
	if i < 1000000000 {
		return 9
	}
	if i < 10000000000 {
		return 10
	}
	if i < 100000000000 {
		return 11
	}
	if i < 1000000000000 {
		return 12
	}
	if i < 10000000000000 {
		return 13
	}
	if i < 100000000000000 {
		return 14
	}
	if i < 1000000000000000 {
		return 15
	}
	if i < 10000000000000000 {
		return 16
	}
	if i < 100000000000000000 {
		return 17
	}
	if i < 1000000000000000000 {
		return 18
	}
	return Digits10Big(i)
}

// Digits10Big covers the values above 10^18 (they do not fit a Go int constant comparison on every platform when
// written as one literal chain, so the last steps divide first).
func Digits10Big(i int) int {
	if i/10 < 1000000000000000000 {
		return 19
	}
	return 20
}

// Pow10OK reports that d is a power of ten up to 10^19.
func Pow10OK(d int) bool {
	return d == 1 || d == 10 || d == 100 || d == 1000 || d == 10000 || d == 100000 || d == 1000000 || d == 10000000 ||
		d == 100000000 || d == 1000000000 || d == 10000000000 || d == 100000000000 || d == 1000000000000 ||
		d == 10000000000000 || d == 100000000000000 || d == 1000000000000000 || d == 10000000000000000 ||
		d == 100000000000000000 || d == 1000000000000000000 || d/10 == 1000000000000000000 && d-d/10*10 == 0
}
