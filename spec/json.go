package spec

// The JSON specification automaton: RFC 8259 §2–§7 as a byte-at-a-time
// transition function over an explicit state. It is written from the RFC, not
// from the code under verification. Everything is pure and loop-free so the VC
// generator can evaluate it symbolically; Run is the left fold of Step.

// Phases.
const (
	DocStart = iota // before a document (nothing but whitespace seen since the last document)
	DocEnd          // single-document mode: the document is complete
	ArrFirst        // just after '['
	ArrNext         // after ',' in an array
	ObjFirst        // just after '{'
	ObjKey          // after ',' in an object
	ObjColon        // after a member name
	ObjValue        // after ':'
	After           // after a value inside a container
	Str             // inside a string
	StrEsc          // after '\' in a string
	StrU            // inside \uXXXX, K hex digits seen (0..3)
	NumNeg          // after '-'
	NumZero         // after a leading 0
	NumInt          // in the integer digits (first digit 1-9)
	NumDot          // after '.'
	NumFrac         // in the fraction digits
	NumE            // after e/E
	NumESign        // after the exponent sign
	NumExp          // in the exponent digits
	Lit             // inside null/true/false, K letters matched (1..)
	Err             // absorbing error state
)

// Container kinds.
const (
	Arr = 1
	Obj = 2
)

// Literal kinds.
const (
	LitNull  = 0
	LitTrue  = 1
	LitFalse = 2
)

// JState is the state of the specification automaton.
type JState struct {
	Ph     int  // phase
	Kinds  Seq  // open containers, outermost first (Arr / Obj)
	Key    bool // the string being read is a member name
	Lit    int  // literal kind while Ph == Lit
	K      int  // progress inside a literal or \u escape
	Line   int  // 1 + number of '\n' consumed
	LastNL int  // offset of the last '\n' consumed, -1 if none
	Off    int  // number of bytes consumed (offset of the next byte)
	Multi  bool // multi-document mode
	ErrOff int  // offset of the byte that made the input invalid (valid when Ph == Err)
	Docs   int  // documents completed so far
	// Abstract view of the tree builder (oj.Parser / gen.Parser keep a value stack): H is the height of the stack of
	// pending values, Bases[j] the height at which open container j put its marker (array) or its map (object).
	H     int
	Bases Seq
	// Payload of the string being read: SLen is the number of bytes its decoded form has so far, RN the value of the
	// hex digits of the \u escape being read.
	SLen int
	RN   int
}

// Init is the state before the first byte.
func Init(multi bool) JState {
	return JState{Ph: DocStart, Line: 1, LastNL: -1, Multi: multi, ErrOff: -1}
}

// IsWS reports JSON whitespace.
func IsWS(b int) bool { return b == ' ' || b == '\t' || b == '\n' || b == '\r' }

// HexVal is the value of a hex digit.
func HexVal(b int) int {
	if '0' <= b && b <= '9' {
		return b - '0'
	}
	if 'a' <= b && b <= 'f' {
		return b - 'a' + 10
	}
	return b - 'A' + 10
}

// UTF8Len is the length of the UTF-8 encoding of a code unit below 0x10000 (surrogates are replaced by U+FFFD).
func UTF8Len(r int) int {
	if r < 0x80 {
		return 1
	}
	if r < 0x800 {
		return 2
	}
	return 3
}

// IsDigit reports an ASCII digit.
func IsDigit(b int) bool { return '0' <= b && b <= '9' }

// IsHex reports a hexadecimal digit.
func IsHex(b int) bool {
	return '0' <= b && b <= '9' || 'a' <= b && b <= 'f' || 'A' <= b && b <= 'F'
}

// LitByte is byte k of literal kind lit (null, true, false), -1 past its end.
func LitByte(lit, k int) int {
	if lit == LitNull {
		if k == 0 {
			return 'n'
		}
		if k == 1 {
			return 'u'
		}
		if k == 2 || k == 3 {
			return 'l'
		}
		return -1
	}
	if lit == LitTrue {
		if k == 0 {
			return 't'
		}
		if k == 1 {
			return 'r'
		}
		if k == 2 {
			return 'u'
		}
		if k == 3 {
			return 'e'
		}
		return -1
	}
	if k == 0 {
		return 'f'
	}
	if k == 1 {
		return 'a'
	}
	if k == 2 {
		return 'l'
	}
	if k == 3 {
		return 's'
	}
	if k == 4 {
		return 'e'
	}
	return -1
}

// LitLen is the length of a literal.
func LitLen(lit int) int {
	if lit == LitFalse {
		return 5
	}
	return 4
}

func fail(q JState) JState {
	r := q
	r.Ph = Err
	r.ErrOff = q.Off
	return r
}

// consume advances over one byte, counting lines.
func consume(q JState, b int) JState {
	r := q
	r.Off = q.Off + 1
	if b == '\n' {
		r.Line = q.Line + 1
		r.LastNL = q.Off
	}
	return r
}

// valueDone is the state after the last byte of a value has been consumed.
func valueDone(q JState) JState {
	r := q
	if q.Kinds.Len() > 0 {
		r.Ph = After
		if q.Kinds.Top() == Obj {
			r.H = q.H - 1 // the value is stored under the pending key, which is popped
		} else {
			r.H = q.H + 1 // the value is pushed
		}
		return r
	}
	r.H = 0 // a complete document is handed off and the stack emptied
	r.Docs = q.Docs + 1
	if q.Multi {
		r.Ph = DocStart
	} else {
		r.Ph = DocEnd
	}
	return r
}

// startValue handles a byte where a value must start.
func startValue(q JState, b int) JState {
	r := consume(q, b)
	if b == '"' {
		r.Ph = Str
		r.Key = false
		r.SLen = 0
		return r
	}
	if b == '-' {
		r.Ph = NumNeg
		return r
	}
	if b == '0' {
		r.Ph = NumZero
		return r
	}
	if '1' <= b && b <= '9' {
		r.Ph = NumInt
		return r
	}
	if b == '[' {
		r.Kinds = q.Kinds.Push(Arr)
		r.Bases = q.Bases.Push(q.H)
		r.H = q.H + 1
		r.Ph = ArrFirst
		return r
	}
	if b == '{' {
		r.Kinds = q.Kinds.Push(Obj)
		r.Bases = q.Bases.Push(q.H)
		r.H = q.H + 1
		r.Ph = ObjFirst
		return r
	}
	if b == 'n' {
		r.Ph = Lit
		r.Lit = LitNull
		r.K = 1
		return r
	}
	if b == 't' {
		r.Ph = Lit
		r.Lit = LitTrue
		r.K = 1
		return r
	}
	if b == 'f' {
		r.Ph = Lit
		r.Lit = LitFalse
		r.K = 1
		return r
	}
	return fail(q)
}

// closeContainer handles ']' or '}' where a close is grammatical.
func closeContainer(q JState, b int) JState {
	if q.Kinds.Len() == 0 {
		return fail(q)
	}
	if b == ']' && q.Kinds.Top() != Arr {
		return fail(q)
	}
	if b == '}' && q.Kinds.Top() != Obj {
		return fail(q)
	}
	r := consume(q, b)
	r.Kinds = q.Kinds.Pop()
	r.Bases = q.Bases.Pop()
	r.H = q.Bases.Top() // everything the container put on the stack is folded into one value
	return valueDone(r)
}

// afterValue handles a byte following a complete value inside a container.
func afterValue(q JState, b int) JState {
	if IsWS(b) {
		r := consume(q, b)
		r.Ph = After
		return r
	}
	if b == ',' {
		r := consume(q, b)
		if q.Kinds.Top() == Obj {
			r.Ph = ObjKey
		} else {
			r.Ph = ArrNext
		}
		return r
	}
	if b == ']' || b == '}' {
		return closeContainer(q, b)
	}
	return fail(q)
}

// endNumber handles the byte that terminates a number (the number is complete).
func endNumber(q JState, b int) JState {
	if q.Kinds.Len() > 0 {
		// the number is stored (under the pending key) or pushed, then b is read as after any value
		return afterValue(valueDone(q), b)
	}
	if IsWS(b) {
		return consume(valueDone(q), b)
	}
	return fail(q)
}

// Step consumes one byte.
func Step(q JState, b int) JState {
	ph := q.Ph
	if ph == Err {
		return q
	}
	if ph == DocStart || ph == ArrNext || ph == ObjValue {
		if IsWS(b) {
			return consume(q, b)
		}
		return startValue(q, b)
	}
	if ph == DocEnd {
		if IsWS(b) {
			return consume(q, b)
		}
		return fail(q)
	}
	if ph == ArrFirst {
		if IsWS(b) {
			return consume(q, b)
		}
		if b == ']' {
			return closeContainer(q, b)
		}
		return startValue(q, b)
	}
	if ph == ObjFirst || ph == ObjKey {
		if IsWS(b) {
			return consume(q, b)
		}
		if b == '"' {
			r := consume(q, b)
			r.Ph = Str
			r.Key = true
			r.SLen = 0
			return r
		}
		if b == '}' && ph == ObjFirst {
			return closeContainer(q, b)
		}
		return fail(q)
	}
	if ph == ObjColon {
		if IsWS(b) {
			return consume(q, b)
		}
		if b == ':' {
			r := consume(q, b)
			r.Ph = ObjValue
			return r
		}
		return fail(q)
	}
	if ph == After {
		return afterValue(q, b)
	}
	if ph == Str {
		if b < 0x20 {
			return fail(q)
		}
		r := consume(q, b)
		if b == '"' {
			if q.Key {
				r.Ph = ObjColon
				r.H = q.H + 1 // the key is pushed
				return r
			}
			return valueDone(r)
		}
		if b == '\\' {
			r.Ph = StrEsc
			return r
		}
		r.SLen = q.SLen + 1 // a plain byte stands for itself
		return r
	}
	if ph == StrEsc {
		if b == '"' || b == '\\' || b == '/' || b == 'b' || b == 'f' || b == 'n' || b == 'r' || b == 't' {
			r := consume(q, b)
			r.Ph = Str
			r.SLen = q.SLen + 1 // a two-byte escape stands for one byte
			return r
		}
		if b == 'u' {
			r := consume(q, b)
			r.Ph = StrU
			r.K = 0
			r.RN = 0
			return r
		}
		return fail(q)
	}
	if ph == StrU {
		if !IsHex(b) {
			return fail(q)
		}
		r := consume(q, b)
		r.RN = q.RN*16 + HexVal(b)
		if q.K >= 3 {
			r.Ph = Str
			r.SLen = q.SLen + UTF8Len(r.RN) // the UTF-8 form of the code unit (a lone surrogate becomes U+FFFD: 3 bytes)
			return r
		}
		r.K = q.K + 1
		return r
	}
	if ph == NumNeg {
		if b == '0' {
			r := consume(q, b)
			r.Ph = NumZero
			return r
		}
		if '1' <= b && b <= '9' {
			r := consume(q, b)
			r.Ph = NumInt
			return r
		}
		return fail(q)
	}
	if ph == NumZero || ph == NumInt {
		if IsDigit(b) && ph == NumInt {
			return consume(q, b)
		}
		if b == '.' {
			r := consume(q, b)
			r.Ph = NumDot
			return r
		}
		if b == 'e' || b == 'E' {
			r := consume(q, b)
			r.Ph = NumE
			return r
		}
		return endNumber(q, b)
	}
	if ph == NumDot {
		if IsDigit(b) {
			r := consume(q, b)
			r.Ph = NumFrac
			return r
		}
		return fail(q)
	}
	if ph == NumFrac {
		if IsDigit(b) {
			return consume(q, b)
		}
		if b == 'e' || b == 'E' {
			r := consume(q, b)
			r.Ph = NumE
			return r
		}
		return endNumber(q, b)
	}
	if ph == NumE {
		if b == '+' || b == '-' {
			r := consume(q, b)
			r.Ph = NumESign
			return r
		}
		if IsDigit(b) {
			r := consume(q, b)
			r.Ph = NumExp
			return r
		}
		return fail(q)
	}
	if ph == NumESign {
		if IsDigit(b) {
			r := consume(q, b)
			r.Ph = NumExp
			return r
		}
		return fail(q)
	}
	if ph == NumExp {
		if IsDigit(b) {
			return consume(q, b)
		}
		return endNumber(q, b)
	}
	if ph == Lit {
		if b != LitByte(q.Lit, q.K) {
			return fail(q)
		}
		r := consume(q, b)
		if q.K+1 >= LitLen(q.Lit) {
			return valueDone(r)
		}
		r.K = q.K + 1
		return r
	}
	return fail(q)
}

// Run is the state after the first n bytes of s, starting from q.
//
//verif:fold Step
func Run(q JState, s Seq, n int) JState {
	for i := 0; i < n; i++ {
		q = Step(q, s.At(i))
	}
	return q
}

// AcceptEOF reports whether the input may end in state q.
func AcceptEOF(q JState) bool {
	if q.Ph == DocEnd || q.Ph == DocStart {
		return true
	}
	if q.Kinds.Len() == 0 && (q.Ph == NumZero || q.Ph == NumInt || q.Ph == NumFrac || q.Ph == NumExp) {
		return true
	}
	return false
}

// Accepts reports whether the whole sequence is accepted (single-document or multi-document mode).
func Accepts(s Seq, multi bool) bool {
	return AcceptEOF(Run(Init(multi), s, s.Len()))
}

// ErrorOffset is the offset an error must be reported at for input s: the
// first offending byte, or len(s) when the text is only incomplete. -1 when s
// is accepted.
func ErrorOffset(s Seq, multi bool) int {
	q := Run(Init(multi), s, s.Len())
	if q.Ph == Err {
		return q.ErrOff
	}
	if AcceptEOF(q) {
		return -1
	}
	return s.Len()
}

// ErrorAt is the offset an error must be reported at when the automaton is in
// state q after all n bytes: the first offending byte, or n when the text is
// only incomplete.
func ErrorAt(q JState, n int) int {
	if q.Ph == Err {
		return q.ErrOff
	}
	return n
}
