// Package spec holds the executable specification functions the contracts
// refer to. Every function here is pure and loop-free (except the folds, which
// are marked //verif:fold and treated as uninterpreted functions with an
// unfolding axiom by the VC generator).
package spec

// Seq is the prelude sequence type: immutable, value semantics. In SMT it is
// an (Array Int Int, length) pair; the VC generator intercepts its methods.
type Seq struct {
	a []int
}

// SeqOf builds a sequence from bytes.
func SeqOf(b []byte) Seq {
	s := Seq{a: make([]int, len(b))}
	for i, x := range b {
		s.a[i] = int(x)
	}
	return s
}

// Len is the number of elements.
func (s Seq) Len() int { return len(s.a) }

// At returns element i.
func (s Seq) At(i int) int { return s.a[i] }

// Top returns the last element.
func (s Seq) Top() int { return s.a[len(s.a)-1] }

// Push returns s with x appended.
func (s Seq) Push(x int) Seq {
	n := make([]int, len(s.a)+1)
	copy(n, s.a)
	n[len(s.a)] = x
	return Seq{a: n}
}

// Pop returns s without its last element.
func (s Seq) Pop() Seq {
	n := make([]int, len(s.a)-1)
	copy(n, s.a)
	return Seq{a: n}
}

// SetTop returns s with the last element replaced.
func (s Seq) SetTop(x int) Seq {
	n := make([]int, len(s.a))
	copy(n, s.a)
	n[len(s.a)-1] = x
	return Seq{a: n}
}
