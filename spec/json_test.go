package spec

import (
	"encoding/json"
	"testing"
)

// TestAgainstEncodingJSON validates the specification automaton (not the code
// under verification) against encoding/json.Valid on every byte string of
// length <= 6 over an alphabet that exercises every byte class.
func TestAgainstEncodingJSON(t *testing.T) {
	alpha := []byte(" \n[]{},:\"\\u0a1-+.eEtrnfls/\x00\x80")
	maxLen := 5
	if !testing.Short() {
		maxLen = 6
	}
	buf := make([]byte, 0, maxLen)
	var rec func(depth int)
	n := 0
	rec = func(depth int) {
		n++
		got := Accepts(SeqOf(buf), false)
		want := json.Valid(buf)
		allWS := true
		for _, b := range buf {
			if !IsWS(int(b)) {
				allWS = false
			}
		}
		if allWS {
			want = true // "no document" is not an error for ojg
		}
		if got != want {
			t.Fatalf("spec accepts(%q) = %v, encoding/json.Valid = %v", buf, got, want)
		}
		if depth == maxLen {
			return
		}
		for _, b := range alpha {
			buf = append(buf, b)
			rec(depth + 1)
			buf = buf[:len(buf)-1]
		}
	}
	rec(0)
	t.Logf("%d inputs compared", n)
}

func TestCorpus(t *testing.T) {
	for _, s := range []string{`{"a":[1,2.5e-3,true,false,null,"xé\n"],"b":{}}`, `[[[[]]]]`, `-0.0e+0`, `"😀"`, ` 1 `, `[1 , 2]`,
		`{"a":}`, `[nul,1]`, `0e1`, `1.`, `[`, `1,2`, `01`, `-`, `[1,]`, `{"a" 1}`, `{,}`, `"\x"`, "\"\n\"", `tru`, `nulll`, `1e`, `1e+`, `.5`, `+1`, `{"a":1,}`, `[]]`, `{]`} {
		if got, want := Accepts(SeqOf([]byte(s)), false), json.Valid([]byte(s)); got != want {
			t.Errorf("%q: spec %v, encoding/json %v", s, got, want)
		}
	}
}

func TestErrorOffset(t *testing.T) {
	for _, c := range []struct {
		s   string
		off int
	}{{`[1,]`, 3}, {`[`, 1}, {`{"a":}`, 5}, {`[nul,1]`, 4}, {`1.`, 2}, {`1.x`, 2}, {`true false`, 5}, {`[1 2]`, 3}, {`{"a":1`, 6}, {``, -1}, {`[]`, -1}} {
		if got := ErrorOffset(SeqOf([]byte(c.s)), false); got != c.off {
			t.Errorf("%q: error offset %d, want %d", c.s, got, c.off)
		}
	}
}
